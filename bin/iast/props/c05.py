"""C05 - configuration honoured exactly; only configured hooks referenced.
Decided: every hook emission is dominated by its configuration gate; hook names come only from the
configured replacement names; the namespace; prologue generation; documented defaults."""
import re
from .. import hir, gate, fmtargs, jsast
from ..engine import AnchorMissing
from ..prov import Prov, origin_str, return_exprs
from .. import travrules as T
from .. import statusrules as S


def _enabled_fn_ok(prog, name, field):
    f = prog.fn("CsiMethods::" + name)
    r = [hir.peel(x) for x in return_exprs(f.body)]
    return len(r) == 1 and hir.is_call(r[0]) and hir.callee_name(r[0]) == "is_some" and (hir.place(hir.call_args(r[0])[0]) or "").endswith("." + field), f


def rule_op_gates(check):
    R = "OP-GATE"
    check.rule(R, "the +, += and template transforms are only reachable through a call site dominated by plus_operator_is_enabled()/tpl_operator_is_enabled() == true; these report exactly whether the configuration listed an operator entry with the documented source name")
    prog = check.prog
    for tname, gname in (("to_dd_binary_expr", "plus_operator_is_enabled"), ("to_dd_assign_expr", "plus_operator_is_enabled"), ("to_dd_tpl_expr", "tpl_operator_is_enabled")):
        cands = prog.find_fns("BinaryAddTransform::" + tname) + prog.find_fns("AssignAddTransform::" + tname) + prog.find_fns("TemplateTransform::" + tname)
        if len(cands) != 1:
            raise AnchorMissing("transform %s" % tname)
        f = cands[0]

        def pred(caller, n, gname=gname):
            if gate.has_call_gate(gate.atoms_at(caller, n), gname, True):
                return True
            # the same answer read another way (the field tested directly, a local holding the answer ..)
            from . import c04 as _c04
            from .. import boolform as _BF
            prem_ = _BF.from_conds(caller, [c_ for c_ in caller.conds_at(n) if c_["t"] != "closure"], _c04.dispatch_atomize, prog)
            return _BF.entails(prem_, _BF.atom("enabled.plus" if gname.startswith("plus") else "enabled.tpl"))

        ok, bad = gate.sites_all_gated(prog, f, pred)
        where = hir.loc(bad[0][1]) if bad and bad[0][1] is not None else hir.loc(f.rec)
        check.expect(ok, R, "%s/%s" % (R, tname), where, "every path to %s passes %s() == true" % (tname, gname), "%s is reachable from %s without %s() == true: a disabled operator is instrumented" % (tname, [T.short(b[0]) for b in bad], gname))
    for name, field, const in (("plus_operator_is_enabled", "plus_operator", "DD_PLUS_OPERATOR"), ("tpl_operator_is_enabled", "tpl_operator", "DD_TEMPLATE_LITERAL_OPERATOR")):
        if not prog.find_fns("CsiMethods::" + name):
            continue  # no such accessor in this tree: the field is tested where it is needed (recognised above)
        ok, f = _enabled_fn_ok(prog, name, field)
        check.expect(ok, R, "%s/%s" % (R, name), hir.loc(f.rec), "%s = self.%s.is_some()" % (name, field), "%s no longer reports self.%s.is_some()" % (name, field))
    new = prog.fn("CsiMethods::new")
    lits = [n for n in hir.walk(new.body) if n.get("k") == "Struct" and (n["res"].get("path") or "").endswith("CsiMethods")]
    check.floor(R, "CsiMethods literals in new", len(lits), 1)
    want_names = {"plus_operator": ("DD_PLUS_OPERATOR", "plusOperator"), "tpl_operator": ("DD_TEMPLATE_LITERAL_OPERATOR", "tplOperator")}
    SUBST = {}

    def terms_of_cond_list(fn_, conds, target=None):
        terms = []
        for c in conds:
            if c["t"] == "bool":
                for t in T._conjuncts(c["e"]):
                    t = hir.peel(t)
                    neg = not c["v"]
                    while t.get("k") == "Unary" and t["op"] == "Not":
                        neg = not neg
                        t = hir.peel(t["x"])
                    if target is not None and hir.is_call(t) and (hir.callee_name(t) or t.get("method")) in ("is_none", "is_some") and (hir.local_of(hir.peel_transparent(hir.call_args(t)[0])) or (None,))[0] == target and ((hir.callee_name(t) or t.get("method")) == "is_none") != neg:
                        # `if slot.is_none() { slot = Some(entry) }`: the first qualifying entry is kept, as `find` does
                        continue
                    if t.get("k") == "Field" and t["field"] == "operator":
                        terms.append(("!" if neg else "") + "operator")
                    elif t.get("k") == "Binary" and t["op"] in ("Eq", "Ne"):
                        sides = [hir.peel_transparent(t["l"]), hir.peel_transparent(t["r"])]
                        cs = [hir.def_path_of(x) for x in sides if hir.def_path_of(x)]
                        cs += [SUBST[(fn_.def_path, hir.local_of(x)[0])] for x in sides if hir.local_of(x) and (fn_.def_path, hir.local_of(x)[0]) in SUBST]
                        fl = [x["field"] for x in sides if x.get("k") == "Field"]
                        eq = (t["op"] == "Eq") != neg
                        terms.append("%s%s%s" % (fl[0] if fl else "?", "==" if eq else "!=", cs[0].split("::")[-1] if cs else "?"))
                    else:
                        terms.append("?" + hir.describe(t)[:40])
            elif c["t"] == "pat" and c.get("scrut") is not None:
                sc = hir.peel_transparent(c["scrut"])
                if sc.get("k") == "Field" and sc["field"] == "src":
                    v = hir.pat_variant(c["pat"])
                    if isinstance(v, str):
                        terms.append("src%s%s" % ("==" if c["v"] else "!=", v.split("::")[-1]))
        return terms

    def producing_terms(fn_, e, depth=0):
        """list of term-lists, one per site that can produce Some(entry) for expression e"""
        e = hir.peel_transparent(e)
        if hir.is_call(e) and (hir.callee_name(e) or e.get("method")) == "find":
            cl = hir.peel(hir.call_args(e)[1])
            if cl.get("k") == "Closure":
                src = hir.peel(hir.call_args(e)[0])
                full = src.get("k") == "MethodCall" and src["method"] in ("iter",)
                return [terms_of_cond_list(fn_, [{"t": "bool", "e": cl["body"], "v": True}]) + ([] if full else ["?partial-iteration"])]
        if hir.is_call(e) and depth < 3:
            h_ = prog.resolve_local(e)
            if h_ is not None and h_.body is not None and h_ is not fn_:
                # a crate helper: its result, with constant arguments substituted for its parameters
                for i_, a_ in enumerate(hir.call_args(e)):
                    d_ = hir.def_path_of(hir.peel_transparent(a_))
                    if d_ and i_ < len(h_.rec["params"]):
                        for b__ in hir.pat_bindings(h_.rec["params"][i_]["pat"]):
                            SUBST[(h_.def_path, b__["local"])] = d_
                out = []
                for r_ in return_exprs(h_.body):
                    out += producing_terms(h_, r_, depth + 1)
                return out
        l = hir.local_of(e)
        if l and depth < 3:
            b_ = fn_.bindings().get(l[0])
            out = []
            if b_ and b_["origin"][0] == "let" and b_["origin"][1] is not None:
                init = hir.peel(b_["origin"][1])
                if not (init.get("k") == "Path" and (init["res"].get("ctor_path") or "").split("::")[-1] == "None"):
                    out += producing_terms(fn_, init, depth + 1)
            for a_ in fn_.assignments_to(l[0]):
                r = hir.peel(a_["r"])
                if r.get("k") == "Path" and (r["res"].get("ctor_path") or "").split("::")[-1] == "None":
                    continue
                out.append(terms_of_cond_list(fn_, [c for c in fn_.conds_at(a_) if c["t"] in ("bool", "pat")], target=l[0]))
            return out
        return [["?unrecognised:" + hir.describe(e)[:40]]]

    for lit in lits:
        flds = {x["name"]: x["e"] for x in lit["fields"]}
        for field, (cname, cval) in want_names.items():
            sites = producing_terms(new, flds[field])
            val = None
            try:
                val = prog.const_str("visitor_util::" + cname)
            except AnchorMissing:
                pass
            need = {"operator", "src==%s" % cname}
            good = bool(sites) and val == cval
            for terms in sites:
                tset = set(terms)
                if not need <= tset or any(t.startswith(("?", "!")) or "!=" in t for t in tset - need if not t.startswith("src!=")):
                    good = False
            check.expect(good, R, "%s/config/%s" % (R, field), hir.loc(lit), "%s = an entry with operator && src == %s (%r)" % (field, cname, val), "%s is filled under %s (const %s=%r): an entry that is not an operator with that source name can enable the operator" % (field, sites, cname, val))
    em = prog.fn("CsiMethods::empty")
    for lit in [n for n in hir.walk(em.body) if n.get("k") == "Struct"]:
        flds = {x["name"]: hir.peel(x["e"]) for x in lit["fields"]}
        ok = all((flds[k].get("res", {}).get("ctor_path") or "").split("::")[-1] == "None" for k in ("plus_operator", "tpl_operator"))
        check.expect(ok, R, R + "/empty", hir.loc(lit), "no configuration: both operators disabled", "CsiMethods::empty enables an operator")


def rule_js_config(check):
    """JS-CONFIG: the configuration a Rewriter is constructed with is the one its native rewriter gets"""
    from .. import jsguards, jsflow as JF

    R = "JS-CONFIG"
    check.rule(R, "main.js: every rewriter object owns a native rewriter created by `new NativeRewriter(config)` from the constructor's own config argument at construction (no instance shared or looked up by a key derived from the configuration), and csiMethods()/rewrite() talk to that instance: the operations instrumented and the hook names are those of this rewriter's configuration")
    prog = check.prog
    js = jsast.JsFile(prog.js, "main.js")
    F = jsguards.File(js)
    news = [n for n in jsast.walk(js.program) if n.get("type") == "NewExpression" and jsast.ident_name(n["callee"]) == "NativeRewriter"]
    check.floor(R, "constructions of the native rewriter", len(news), 1)
    for n in news:
        top = F.enclosing_fn(n)
        is_ctor = top is not None and top.get("type") == "Constructor"
        ps = F.params(top) if top is not None else []
        a = [jsast.ident_name(x["expression"]) for x in (n.get("arguments") or [])]
        par = F.parent(n)
        stored = par.get("type") == "AssignmentExpression" and par["right"] is n and jsast.member_chain(par["left"]) == ["this", "nativeRewriter"]
        if not stored and par.get("type") == "VariableDeclarator" and is_ctor:
            v = jsast.ident_name(par["id"])
            stored = any(x.get("type") == "AssignmentExpression" and jsast.member_chain(x["left"]) == ["this", "nativeRewriter"] and jsast.ident_name(x["right"]) == v for x in jsast.walk(top))
        ok = is_ctor and a == ps[:1] and stored
        check.expect(ok, R, R + "/own-instance", js.loc(n), "this.nativeRewriter = new NativeRewriter(config) in the constructor", "the native rewriter is not created by the rewriter's constructor from its own config and kept in this.nativeRewriter (created in %s with %s): rewriters can end up sharing the native instance - and the configuration - of another one" % (F.fn_name(top) or (top or {}).get("type"), a))
    # every write of this.nativeRewriter is one of those constructions or the dummy
    writes = [x for x in jsast.walk(js.program) if x.get("type") == "AssignmentExpression" and jsast.member_chain(x["left"]) == ["this", "nativeRewriter"]]
    for w in writes:
        r = JF.unparen(w["right"])
        top = F.enclosing_fn(w)
        if r.get("type") == "Identifier" and top is not None:
            init = F.resolve_const(top)(r["value"])
            r = JF.unparen(init) if init is not None else r
        okw = r.get("type") == "NewExpression" and jsast.ident_name(r["callee"]) in ("NativeRewriter", "DummyRewriter")
        check.expect(okw, R, R + "/write", js.loc(w), "this.nativeRewriter is a fresh instance", "this.nativeRewriter is assigned `%s`, not a freshly constructed native rewriter" % JF.text(w["right"])[:60])
    check.floor(R, "writes of this.nativeRewriter", len(writes), 2)
    for cname in ("NonCacheRewriter",):
        cls = js.class_decl(cname)
        for mname in ("csiMethods", "rewrite"):
            m = js.method(cls, mname)
            calls = [x for x in jsast.walk(m) if x.get("type") == "CallExpression" and jsast.member_chain(jsguards._callee(x)) == ["this", "nativeRewriter", mname]]
            check.expect(len(calls) == 1, R, "%s/%s" % (R, mname), js.loc(m), "%s delegates to this.nativeRewriter.%s" % (mname, mname), "%s.%s does not delegate to its own native rewriter" % (cname, mname))


def rule_method_gates(check):
    R = "METHOD-GATE"
    check.rule(R, "every method hook (ResultExpr) is built only after csi_methods.get(<source name of the called method>) returned an entry (bare calls: and allowed_without_callee); get() only returns non-operator entries whose src equals the name; the optional-chain lowering starts only for a configured method")
    prog = check.prog
    pv = Prov(prog)
    sites = []
    gp = prog.fn("visitor_util::get_dd_paren_expr")
    for f, n in prog.sites_calling(gp):
        if not hir.is_call(n):
            continue
        no = pv.origins(f, hir.call_args(n)[3])
        # method hooks: the name is the dst of an entry returned by CsiMethods::get (operators use plus/tpl entries)
        if any(p and p[-1] == "dst" and r[0] == "call" and "find" in r[1] and "CsiMethods::get" in r[2] for r, p in no):
            sites.append((f, n))
    check.floor(R, "method hook emissions", len(sites), 3)
    from .. import boolform as BF
    GOT, AWC = BF.atom("entry-found-in-configuration"), BF.atom("allowed-without-callee")
    for f, n in sites:
        atoms = gate.atoms_at(f, n)
        gets = []

        def atomize(fn_, e):
            e = hir.peel(e)
            if hir.is_call(e) and hir.callee_name(e) == "get" and "CsiMethods" in ((e.get("callee") or {}).get("path") or ""):
                gets.append(e)
                return GOT
            if e.get("k") == "Field" and e.get("field") == "allowed_without_callee":
                return AWC
            return None

        prem = BF.from_conds(f, [c for c in f.conds_at(n) if c["t"] != "closure"], atomize, prog)
        got = gets[0] if gets and BF.entails(prem, GOT) else None
        key = "%s/%s" % (R, f.name)
        if got is None:
            check.bad(R, key, hir.loc(n), "%s builds a method hook without a successful csi_methods.get(..) in scope" % f.name)
            continue
        name_o = pv.origins(f, hir.call_args(got)[1])
        ok_name = bool(name_o) and all(p and p[-1] == "sym" for r, p in name_o)
        check.expect(ok_name, R, key, hir.loc(n), "hook built under csi_methods.get(<callee .sym>) == Some", "the name looked up in the configuration is not the called method's name: %s" % sorted(origin_str(o) for o in name_o))
        resolved = pv.resolve_params(name_o)
        bare = any("callee.Expr.0.Ident.0.sym" in ".".join(p) for r, p in resolved)
        if bare:
            ok = any(a[0] == "place" and a[1].endswith(".allowed_without_callee") and a[2] is True for a in atoms) or BF.entails(prem, AWC)
            check.expect(ok, R, key + "/allowed_without_callee", hir.loc(n), "bare call only when allowed_without_callee", "a bare call is instrumented without checking allowed_without_callee")
    g = prog.fn("CsiMethods::get")
    r = [hir.peel(x) for x in return_exprs(g.body)]
    terms = []
    ok = len(r) == 1 and hir.is_call(r[0]) and hir.callee_name(r[0]) == "find"
    if ok:
        cl = hir.peel(hir.call_args(r[0])[1])
        for t in T._conjuncts(cl["body"]):
            t = hir.peel(t)
            neg = False
            while t.get("k") == "Unary" and t["op"] == "Not":
                neg = not neg
                t = hir.peel(t["x"])
            if t.get("k") == "Field" and t["field"] == "operator":
                terms.append(("!" if neg else "") + "operator")
            elif t.get("k") == "Binary" and t["op"] == "Eq":
                sides = [hir.peel_transparent(t["l"]), hir.peel_transparent(t["r"])]
                fl = [s["field"] for s in sides if s.get("k") == "Field"]
                pr = [s for s in sides if hir.local_of(s) and g.bindings()[hir.local_of(s)[0]]["origin"][0] == "param"]
                terms.append("%s==%s" % (fl[0] if fl else "?", "name" if pr else "?"))
            else:
                terms.append("?" + hir.describe(t))
        src = hir.peel(hir.call_args(r[0])[0])
        full = src.get("k") == "MethodCall" and src["method"] == "iter" and (hir.place(src["recv"]) or "").endswith(".methods")
        ok = full and sorted(terms) == ["!operator", "src==name"]
    check.expect(ok, R, R + "/get", hir.loc(g.rec), "get(name) = first entry with !operator && src == name", "CsiMethods::get selects by %s" % terms)
    # optional chain lowering
    from ..trav import overrides_of

    ov = [f for f in overrides_of(prog, "OptChainVisitor") if f.name == "visit_mut_expr"]
    if len(ov) != 1:
        raise AnchorMissing("OptChainVisitor::visit_mut_expr")
    f = ov[0]
    sets = [x for x in f.nodes() if x.get("k") == "Assign" and (hir.place(x["l"]) or "").endswith(".found") and hir.lit_value(x["r"]) is True]
    check.floor(R, "found = true sites", len(sets), 1)
    from .. import boolform as BF2
    GOT2 = BF2.atom("method-found-in-configuration")
    for x in sets:
        gets2 = []

        def atomize2(fn_, e):
            e = hir.peel(e)
            if hir.is_call(e) and hir.callee_name(e) == "get" and "CsiMethods" in ((e.get("callee") or {}).get("path") or ""):
                owner = [h_ for h_ in prog.user_fns if any(y is e for y in h_.nodes())]
                gets2.append((owner[0] if owner else fn_, e))
                return GOT2
            return None

        prem2 = BF2.from_conds(f, [c for c in f.conds_at(x) if c["t"] != "closure"], atomize2, prog)
        ok = bool(gets2) and BF2.entails(prem2, GOT2)
        for h_, ge in gets2:
            no = pv.origins(h_, hir.call_args(ge)[1])
            ok = ok and bool(no) and all(p and p[-1] == "sym" for r, p in no)
        check.expect(ok, R, R + "/optchain", hir.loc(x), "lowering starts only if csi_methods.get(prop .sym).is_some()", "optional-chain lowering is not gated by the configured method list")
    lits = [(g2, x) for g2 in prog.user_fns for x in g2.nodes() if x.get("k") == "Struct" and (x["res"].get("path") or "").endswith("OptChainVisitor")]
    check.floor(R, "OptChainVisitor constructions", len(lits), 1)
    for g2, x in lits:
        fv = [hir.lit_value(fl["e"]) for fl in x["fields"] if fl["name"] == "found"]
        check.expect(fv == [False], R, R + "/optchain-initial/" + g2.name, hir.loc(x), "the lowering starts with found = false", "OptChainVisitor is created with found = %s: every optional chain is lowered, configured method or not" % fv)
    writers = sorted({g2.name for g2 in prog.user_fns for x in g2.nodes() if x.get("k") == "Assign" and (hir.place(x["l"]) or "").endswith(".found")})
    check.expect(writers == ["visit_mut_expr"], R, R + "/found-writers", "-", "`found` only set in the gated branch", "`found` is written in %s" % writers)


def _stmt_index(block, f, node):
    """index of the direct statement (or tail = len) of `block` that contains node, else None"""
    chain = [node] + list(f.ancestors(node))
    ids = {id(x) for x in chain}
    for i, st in enumerate(block["stmts"]):
        e = st.get("init") if st["k"] == "Let" else st.get("e")
        if e is not None and (id(e) in ids or any(id(x) in ids for x in [e])):
            return i
        if id(st) in ids:
            return i
    if "tail" in block and id(block["tail"]) in ids:
        return len(block["stmts"])
    return None


def _dominated_by(f, p_site, d_site):
    """structural dominance: p_site is (the expression of) a direct statement of a block B and d_site lies
    in a later statement (or the tail) of the same block B"""
    par = f.parent(p_site)
    while par is not None and par.get("k") in ("DropTemps", "Use"):
        par = f.parent(par)
    blocks = [a for a in f.ancestors(p_site) if a.get("k") == "Block"]
    if not blocks:
        return False
    b = blocks[0]
    pi = None
    for i, st in enumerate(b["stmts"]):
        e = st.get("init") if st["k"] == "Let" else st.get("e")
        if e is not None and hir.peel(e) is p_site:
            pi = i
    if pi is None:
        return False
    if not any(a is b for a in f.ancestors(d_site)):
        return False
    # which statement of b holds d_site
    anc = {id(x) for x in f.ancestors(d_site)} | {id(d_site)}
    for j, st in enumerate(b["stmts"]):
        e = st.get("init") if st["k"] == "Let" else st.get("e")
        if e is not None and any(id(x) in anc for x in hir.walk(e)):
            return j > pi
    return "tail" in b and any(id(x) in anc for x in hir.walk(b["tail"]))


def rule_call_apply_name(check):
    """The configured name consulted for `F.call(..)` / `F.apply(..)` is the property through which F
    itself is read (`<obj>.<name>.call`), never a name found deeper in the member chain."""
    R = "METHOD-GATE"
    prog = check.prog
    pv = Prov(prog)
    g = prog.fn("FunctionPrototypeTransform::get_expression_parts_from_call_or_apply")
    cands = []
    for n in hir.calls_in(g.body):
        h = prog.resolve_local(n)
        if h is None or h is g or h.body is None:
            continue
        args = hir.call_args(n)
        vec_arg = [i for i, a in enumerate(args) if a.get("k") == "AddrOf" and a.get("mut") and hir.local_of(a) and "Vec<" in (hir.peel(a).get("ty") or "")]
        mem_arg = [i for i, a in enumerate(args) if "MemberExpr" in (hir.peel(a).get("ty") or "")]
        if vec_arg and mem_arg:
            cands.append((n, h, mem_arg[0], vec_arg[0]))
        elif mem_arg and "Vec<" in (h.rec.get("ret") or "") and "Ident" in (h.rec.get("ret") or ""):
            cands.append((n, h, mem_arg[0], None))
        elif mem_arg and "Option<" in (h.rec.get("ret") or "") and "Ident" in (h.rec.get("ret") or "") and "Vec<" not in (h.rec.get("ret") or ""):
            cands.append((n, h, mem_arg[0], "direct"))
    key = R + "/call-or-apply-name"
    if len(cands) == 1 and cands[0][3] == "direct":
        # no path vector at all: the helper hands back one identifier, which must be the member's own property
        n, h, mi, _ = cands[0]
        mo = pv.origins(g, hir.call_args(n)[mi])
        whole = bool(mo) and all(r[0] == "param" and p_ == () for r, p_ in mo)
        ro = set()
        for r_ in return_exprs(h.body):
            ro |= {o for o in pv.origins(h, r_) if not (o[0][0] == "ctor" and o[0][1].split("::")[-1] in ("None", "Some"))}
        own = bool(ro) and all(r[0] == "param" and r[2] == mi and p_[:1] == ("prop",) for r, p_ in ro)
        check.expect(whole and own, R, key + "/first-element", hir.loc(n), "the method name is the property of the member itself (%s)" % h.name, "the method name of `F.call/apply` is not the property through which F is read: %s" % sorted(origin_str(o) for o in ro))
        return
    if len(cands) != 1:
        check.bad(R, key, hir.loc(g.rec), "cannot find the one helper that collects the member path of `F.call/apply` (%d candidates)" % len(cands))
        return
    n, h, mi, vi = cands[0]
    if vi is None:
        # the helper returns the path: only its first element may be used
        cur_ = n
        chain_ = []
        for _ in range(6):
            par_ = g.parent(cur_)
            while par_ is not None and par_.get("k") in ("DropTemps", "Use", "AddrOf"):
                cur_, par_ = par_, g.parent(par_)
            if par_ is not None and par_.get("k") == "MethodCall" and par_["recv"] is cur_:
                chain_.append(par_["method"])
                cur_ = par_
                continue
            if par_ is not None and par_.get("k") == "Index" and par_["x"] is cur_:
                chain_.append("[%s]" % hir.lit_value(par_["i"]))
                cur_ = par_
                continue
            break
        core_ = [c_ for c_ in chain_ if c_ not in ("into_iter", "iter", "cloned", "copied", "clone", "as_slice")]
        first_ok = core_[:1] in (["next"], ["first"], ["[0]"])
        mo = pv.origins(g, hir.call_args(n)[mi])
        whole = bool(mo) and all(r[0] == "param" and p_ == () for r, p_ in mo)
        check.expect(first_ok and whole, R, key + "/first-element", hir.loc(n), "the method name is the first element of the path returned by %s(member)" % h.name, "the method name of `F.call/apply` is not the first element of the member path (%s)" % ".".join(chain_))
        rets_ = [hir.local_of(r_) for r_ in return_exprs(h.body)]
        if not rets_ or any(r_ is None for r_ in rets_) or len({r_[0] for r_ in rets_}) != 1:
            check.bad(R, key, hir.loc(h.rec), "%s does not return one path vector" % h.name)
            return
        vloc_override = rets_[0][0]
    else:
        vloc_override = None
    vec_l = hir.local_of(hir.call_args(n)[vi])[0] if vi is not None else None
    if vi is None:
        _contiguity(check, prog, pv, h, mi, vloc_override, R, key)
        return
    b = g.bindings()[vec_l]
    fresh = b["origin"][0] == "let" and b["origin"][1] is not None and all(r[0] == "call" and ("Vec" in r[1]) for r, p_ in pv.origins(g, b["origin"][1])) and bool(pv.origins(g, b["origin"][1]))
    mo = pv.origins(g, hir.call_args(n)[mi])
    whole = bool(mo) and all(r[0] == "param" and p_ == () for r, p_ in mo)
    # every read of the vector (apart from handing it to the helper) takes its first element:
    # v[0], v.first(), v.iter().next(), v.into_iter().next(), v.get(0)
    in_n = {id(x) for x in hir.walk(n)}
    reads = [x for x in g.nodes() if x.get("k") == "Path" and (hir.local_of(x) or (None,))[0] == vec_l and id(x) not in in_n]
    first_only = bool(reads)
    other_use = []
    for x in reads:
        cur_ = x
        chain_ = []
        for _ in range(6):
            par_ = g.parent(cur_)
            while par_ is not None and par_.get("k") in ("DropTemps", "Use", "AddrOf"):
                cur_, par_ = par_, g.parent(par_)
            if par_ is not None and par_.get("k") == "MethodCall" and par_["recv"] is cur_:
                chain_.append(par_["method"] if not (par_["method"] == "get" and par_["args"] and hir.lit_value(par_["args"][0]) == 0) else "[0]")
                cur_ = par_
                continue
            if par_ is not None and par_.get("k") == "Index" and par_["x"] is cur_:
                chain_.append("[%s]" % hir.lit_value(par_["i"]))
                cur_ = par_
                continue
            break
        core_ = [c_ for c_ in chain_ if c_ not in ("into_iter", "iter", "cloned", "copied", "clone", "as_slice")]
        if core_[:1] not in (["next"], ["first"], ["[0]"]):
            first_only = False
            other_use.append(x)
    check.expect(fresh and whole and first_only and not other_use, R, key + "/first-element", hir.loc(n), "the method name is element 0 of a fresh vector filled by %s(member)" % h.name, "the method name of `F.call/apply` is not element 0 of a fresh path vector (fresh=%s, whole member=%s, only [0] read=%s, other uses=%d)" % (fresh, whole, first_only, len(other_use)))
    vprm = hir.pat_bindings(h.rec["params"][vi]["pat"])
    if not vprm:
        check.bad(R, key, hir.loc(h.rec), "unrecognised parameters of %s" % h.name)
        return
    _contiguity(check, prog, pv, h, mi, vprm[0]["local"], R, key)


def _contiguity(check, prog, pv, h, mi, vloc, R, key):
    """inside the path helper: a push of the current member's own property dominates every other push and
    every step down the chain (recursive, `while let Some(m) = cur`, or cursor-variable form)"""
    # inside the helper: a push of the current member's own property dominates every other push and every descent
    prm = hir.pat_bindings(h.rec["params"][mi]["pat"])
    if not prm:
        check.bad(R, key, hir.loc(h.rec), "unrecognised parameters of %s" % h.name)
        return
    loops = [x for x in h.nodes() if x.get("k") == "Loop"]
    pushes = [x for x in h.nodes() if hir.is_call(x) and (hir.callee_name(x) or x.get("method")) in ("push", "insert", "extend", "push_back") and (hir.local_of(hir.call_args(x)[0]) or (None,))[0] == vloc]
    descents = [x for x in h.nodes() if hir.is_call(x) and prog.resolve_local(x) is h]
    loops = [l for l in loops if any(any(y is l for y in h.ancestors(x)) for x in pushes + descents)]
    if len(loops) == 1 and not descents and hir.while_let_shape(loops[0]) and all(any(y is loops[0] for y in h.ancestors(x)) for x in pushes):
        # iterative form: `let mut cur = Some(member); while let Some(m) = cur { .. cur = Some(<m.obj ..>) | None }`
        from ..prov import value_exprs

        cur, m, blk = hir.while_let_shape(loops[0])
        b = h.bindings().get(cur)
        init = b["origin"][1] if b and b["origin"][0] == "let" else None
        io = pv.origins(h, init) if init is not None else set()
        starts = bool(io) and all(r[0] == "param" and r[2] == mi and p_ in ((), ("Some", "0"), ("Some.0",)) for r, p_ in io)
        own = [x for x in pushes if (hir.root_path(h, hir.call_args(x)[1], stop=(m,)) or (None, []))[0] == m and (hir.root_path(h, hir.call_args(x)[1], stop=(m,)) or (None, [None]))[1][:1] == ["prop"] and (x.get("method") or hir.callee_name(x)) == "push"]
        steps = []
        for a in h.assignments_to(cur):
            if not any(y is loops[0] for y in h.ancestors(a)):
                continue
            for v in value_exprs(a["r"]):
                v = hir.peel(v)
                if v.get("k") == "Call" and (hir.peel(v["f"]).get("res", {}).get("ctor_path") or "").split("::")[-1] == "Some":
                    rp = hir.root_path(h, v["args"][0], stop=(m,))
                    steps.append((a, rp is not None and rp[0] == m and rp[1][:1] == ["obj"]))
                elif not (v.get("k") == "Path" and (v["res"].get("ctor_path") or "").split("::")[-1] == "None"):
                    steps.append((a, False))
        why = []
        ok = starts and len(own) == 1
        if not starts:
            why.append("the walk does not start at the member itself")
        if len(own) != 1:
            why.append("%d pushes of the current member's own property" % len(own))
        if ok:
            for x in pushes:
                if x is not own[0] and not _dominated_by(h, own[0], x):
                    ok = False
                    why.append("a push at %s is not preceded by the push of the member's own property" % hir.loc(x))
            for a, to_obj in steps:
                if not to_obj:
                    ok = False
                    why.append("the step at %s does not go to member.obj" % hir.loc(a))
                if not _dominated_by(h, own[0], a):
                    ok = False
                    why.append("the step down the chain at %s is taken without pushing this member's property first (a computed or private key is skipped)" % hir.loc(a))
        check.expect(ok, R, key + "/contiguous", hir.loc(h.rec), "%s (iterative) pushes member.prop before any other element and before stepping to member.obj" % h.name, "%s can report a name that is not the direct property of the called function: %s" % (h.name, "; ".join(why)))
        return
    if len(loops) == 1 and not descents and not hir.while_let_shape(loops[0]) and all(any(y is loops[0] for y in h.ancestors(x)) for x in pushes):
        # cursor form: `let mut current = member; while <current.prop is an identifier> { push(prop); current = <current.obj ..> | break }`
        cursors = {}
        for a in h.nodes():
            if a.get("k") == "Assign" and hir.local_of(a["l"]) and any(y is loops[0] for y in h.ancestors(a)):
                cursors.setdefault(hir.local_of(a["l"])[0], []).append(a)
        cursors = {v_: as_ for v_, as_ in cursors.items() if v_ != vloc}
        if len(cursors) == 1:
            cur = list(cursors)[0]
            b = h.bindings().get(cur)
            init = b["origin"][1] if b and b["origin"][0] == "let" else None
            io = pv.origins(h, init) if init is not None else set()
            starts = bool(io) and all(r[0] == "param" and r[2] == mi and p_ == () for r, p_ in io)
            own = [x for x in pushes if (hir.root_path(h, hir.call_args(x)[1], stop=(cur,)) or (None, []))[0] == cur and (hir.root_path(h, hir.call_args(x)[1], stop=(cur,)) or (None, [None]))[1][:1] == ["prop"] and (x.get("method") or hir.callee_name(x)) == "push"]
            why = []
            ok = starts and len(own) == 1
            if not starts:
                why.append("the walk does not start at the member itself")
            if len(own) != 1:
                why.append("%d pushes of the current member's own property" % len(own))
            if ok:
                for x in pushes:
                    if x is not own[0] and not _dominated_by(h, own[0], x):
                        ok = False
                        why.append("a push at %s is not preceded by the push of the member's own property" % hir.loc(x))
                for a in cursors[cur]:
                    rp = hir.root_path(h, a["r"], stop=(cur,))
                    if not (rp and rp[0] == cur and rp[1][:1] == ["obj"]):
                        ok = False
                        why.append("the step at %s does not go to member.obj" % hir.loc(a))
                    if not _dominated_by(h, own[0], a):
                        ok = False
                        why.append("the step down the chain at %s is taken without pushing this member's property first (a computed or private key is skipped)" % hir.loc(a))
            check.expect(ok, R, key + "/contiguous", hir.loc(h.rec), "%s (cursor loop) pushes member.prop before any other element and before stepping to member.obj" % h.name, "%s can report a name that is not the direct property of the called function: %s" % (h.name, "; ".join(why)))
            return
    if loops:
        check.bad(R, key, hir.loc(loops[0]), "%s walks the member chain with a loop; the rule only follows the recursive form and cannot show that a name is pushed before every step down the chain" % h.name)
        return
    own = []
    for x in pushes:
        os_ = pv.origins(h, hir.call_args(x)[1])
        if os_ and all(r[0] == "param" and r[2] == mi and p_[:1] == ("prop",) for r, p_ in os_) and (x.get("method") or hir.callee_name(x)) == "push":
            own.append(x)
    ok = len(own) == 1
    why = []
    if not ok:
        why.append("%d pushes of the member's own property" % len(own))
    else:
        for x in pushes:
            if x is own[0]:
                continue
            if not _dominated_by(h, own[0], x):
                ok = False
                why.append("a push at %s is not preceded by the push of the member's own property" % hir.loc(x))
        for d in descents:
            do = pv.origins(h, hir.call_args(d)[mi])
            if not (do and all(r[0] == "param" and r[2] == mi and p_[:1] == ("obj",) for r, p_ in do)):
                ok = False
                why.append("the step at %s does not go to member.obj" % hir.loc(d))
            if not _dominated_by(h, own[0], d):
                ok = False
                why.append("the step down the chain at %s is taken without pushing this member's property first (a computed or private key is skipped)" % hir.loc(d))
    check.expect(ok, R, key + "/contiguous", hir.loc(h.rec), "%s pushes member.prop before any other element and before stepping to member.obj" % h.name, "%s can report a name that is not the direct property of the called function: %s" % (h.name, "; ".join(why)))


def rule_names(check):
    R = "HOOK-NAMES"
    check.rule(R, "the member name dereferenced on the hook namespace is always the configured replacement name (dst) of the entry that gated the emission; the namespace identifier is the constant _ddiast and nothing else builds a member access on it")
    prog = check.prog
    pv = Prov(prog)
    gp = prog.fn("visitor_util::get_dd_paren_expr")
    sites = [(f, n) for f, n in prog.sites_calling(gp) if hir.is_call(n)]
    check.floor(R, "get_dd_paren_expr call sites", len(sites), 5)
    for f, n in sites:
        a = hir.call_args(n)
        os_ = pv.origins(f, a[3])
        kinds = set()
        bad = []
        for r, p in os_:
            if p and p[-1] == "dst":
                base = origin_str((r, p[:-1]))
                kinds.add("dst of " + ("the looked-up entry" if "get" in base or "methods" in base else base.split(".")[-1]))
            elif r[0] == "const" and r[1].split("::")[-1] in ("DD_PLUS_OPERATOR", "DD_TEMPLATE_LITERAL_OPERATOR"):
                kinds.add("fallback const (dead: the gate guarantees the entry)")
            else:
                bad.append(origin_str((r, p)))
        check.expect(not bad and any(k.startswith("dst") for k in kinds), R, "%s/%s" % (R, f.name), hir.loc(n), "hook name <- %s" % ", ".join(sorted(kinds)), "hook name has origin(s) other than a configured dst: %s" % ", ".join(sorted(bad)))
    # forwarding inside visitor_util
    gc = prog.fn("visitor_util::get_dd_call_expr")
    inv = prog.fn("visitor_util::dd_global_method_invocation")
    for f, callee, idx_in, idx_out in ((gp, "get_dd_call_expr", 3, 2), (gc, "dd_global_method_invocation", 2, 0)):
        cs = [x for x in hir.calls_in(f.body, name=callee)]
        ok = len(cs) == 1 and all(r[0] == "param" and r[2] == idx_in for r, p in pv.origins(f, hir.call_args(cs[0])[idx_out]))
        check.expect(ok, R, "%s/forward/%s" % (R, f.name), hir.loc(f.rec), "%s forwards the method name unchanged" % f.name, "%s does not forward its method_name parameter to %s" % (f.name, callee))
    names = [x for x in hir.walk(inv.body) if hir.is_call(x) and hir.callee_name(x) == "new" and "IdentName" in x["callee"]["path"]]
    ok = len(names) == 1 and all(r[0] == "param" and r[2] == 0 for r, p in pv.origins(inv, hir.call_args(names[0])[0]))
    check.expect(ok, R, R + "/member-prop", hir.loc(inv.rec), "member property = the method name parameter", "the emitted member property is not the method name parameter")
    ns_ok = False
    for h_ in prog.flat(inv, 2):
        # the identifier may be built by a constructor helper: its name is then what inv passes for it
        for x in [x for x in hir.walk(h_.body) if x.get("k") == "Struct" and (x["res"].get("path") or "").endswith("swc_ecma_ast::Ident")]:
            for fl in x["fields"]:
                if fl["name"] == "sym":
                    o = pv.origins_upto(inv, h_, fl["e"])
                    ns_ok = bool(o) and all(r[0] == "const" and r[1].endswith("DD_GLOBAL_NAMESPACE") for r, p in o)
    val = prog.const_str("visitor_util::DD_GLOBAL_NAMESPACE")
    check.expect(ns_ok and val == "_ddiast", R, R + "/namespace", hir.loc(inv.rec), "namespace identifier = DD_GLOBAL_NAMESPACE (%r)" % val, "namespace identifier is not the constant _ddiast (%r)" % val)
    users = sorted({f.name for f in prog.user_fns for x in f.nodes() if x.get("k") == "Path" and (x["res"].get("path") or "").endswith("DD_GLOBAL_NAMESPACE")})
    check.expect(users == ["dd_global_method_invocation"], R, R + "/namespace-users", "-", "DD_GLOBAL_NAMESPACE used only in dd_global_method_invocation", "DD_GLOBAL_NAMESPACE is used in %s" % users)
    tpl = prog.js.get("__prologue_template_text") or ""
    check.expect(("globals.%s = globals.%s ||" % (val, val)) in tpl.replace("  ", " "), R, R + "/prologue-namespace", "src/rewriter.rs", "the prologue defines the same namespace", "the prologue template does not define globals.%s" % val)
    # ... on the global object, found in a way that does not depend on where the file runs: the IIFE's
    # argument is the indirect eval / globalThis, never the top-level `this` (module.exports in CommonJS,
    # undefined in ES modules and strict wrappers)
    import re as _re
    m_ = _re.search(r"\}\s*\((.*)\)\s*\)\s*;?\s*$", tpl.strip())
    arg_ = (m_.group(1).strip() if m_ else "")
    GLOBAL_OBJECT = ("(1,eval)('this')", "(1, eval)('this')", '(1,eval)("this")', '(1, eval)("this")', "globalThis", "(0,eval)('this')", "(0, eval)('this')", "Function('return this')()")
    check.expect(arg_ in GLOBAL_OBJECT, R, R + "/prologue-global-object", "src/rewriter.rs", "the namespace is attached to the global object (%s)" % arg_, "the prologue attaches the namespace to `%s`, which is not the global object wherever the file runs (CommonJS: module.exports, ES module: undefined): the hooks of a rewritten file loaded before the tracer are undefined" % (arg_ or "?"))


def rule_prologue(check):
    R = "PROLOGUE"
    check.rule(R, "the prologue defines a pass-through for every configured replacement name (no filter) and never overwrites an existing hook object: `if (typeof NS === 'undefined') ... globals.NS = globals.NS || { dst: noop, .. }` with noop = (res) => res")
    prog = check.prog
    # the prologue must run before any hook call of the file: it goes right after the leading directives
    from . import c07 as _c07
    from ..trav import overrides_of as _ov

    vp = [f_ for f_ in _ov(prog, "BlockTransformVisitor") if f_.name == "visit_mut_program"]
    for f_ in vp:
        for g_ in prog.flat(f_, 2):
            for n_ in g_.nodes():
                if n_.get("k") == "MethodCall" and n_["method"] in ("insert", "splice") and any(v in (hir.peel(n_["recv"]).get("ty") or "") for v in ("Vec<swc_ecma_ast::Stmt>", "Vec<swc_ecma_ast::ModuleItem>", "Vec<T>")):
                    idx = n_["args"][0]
                    if n_["method"] == "splice":
                        idx = _c07._empty_range(idx)
                    _c07._PRED_CTX["prog"] = prog
                    _c07._PRED_CTX["fn"] = g_
                    idm = _c07.index_idiom(prog, g_, idx) if idx is not None else (None, set(), None)
                    if idm[0] == "after-last":
                        check.bad(R, "%s/position/%s" % (R, g_.name), hir.loc(n_), "the file prologue is inserted after the *last* string-literal statement of the file instead of after the leading directives: hook calls above it run before `_ddiast` has its fall-back definition")
    g = prog.fn("rewriter::generate_prefix_stmts")
    # the part of it (itself or a helper) that fills the template
    def _strval(fn_, e_):
        """a string literal, or a crate constant that is one"""
        e_ = hir.peel_transparent(e_)
        v_ = hir.lit_value(e_) if e_.get("k") == "Lit" else None
        if isinstance(v_, str):
            return v_
        dp_ = hir.def_path_of(e_)
        if dp_:
            try:
                return prog.const_str(dp_)
            except AnchorMissing:
                return None
        return None

    reps = [(g_, x) for g_ in prog.flat(g, 2) for x in hir.calls_in(g_.body, name="replace") if len(hir.call_args(x)) > 2 and _strval(g_, hir.call_args(x)[1]) == "__CSI_METHODS__"]
    check.expect(len(reps) == 1, R, R + "/placeholder", hir.loc(g.rec), "the generated entries replace __CSI_METHODS__ in the template", "the template placeholder is not filled with the generated entries")
    # where the entries are put together: the function that fills the placeholder, the helper that returns
    # the replacement text, and closures in them
    builders = []
    if reps:
        g = reps[0][0]
        builders.append(g)
        for x in hir.walk(hir.call_args(reps[0][1])[2]):
            h_ = prog.resolve_local(x) if hir.is_call(x) and x.get("callee") else None
            if h_ is not None and h_.body is not None and h_ not in builders:
                builders.append(h_)
    SEP = (", ", ",", ",\n", ", \n")
    ok = False
    n_entry = 0
    for b_ in builders:
        for n, pieces in fmtargs.text_assemblies(prog, b_):
            core = [(k, v) for k, v in pieces if not (k == "lit" and v in SEP)]
            if not ([k for k, v in core] == ["arg", "lit"] and core[1][1] == ": noop"):
                continue
            n_entry += 1
            ok = (hir.place(core[0][1]) or "").endswith(".dst")
            # every configured method, in order: the entry is built inside a closure of / a loop over
            # `<csi methods>.methods` reached through element-wise adapters only
            site = core[0][1]
            src, chain, outer, how = None, [], [], None
            for a in b_.ancestors(site):
                if a.get("k") == "Closure":
                    call = b_.parent(a)
                    while call is not None and not hir.is_call(call):
                        call = b_.parent(call)
                    x = call
                    while x is not None and x.get("k") == "MethodCall":
                        chain.append(x["method"])
                        x = hir.peel(x["recv"])
                    src = x
                    y = b_.parent(call) if call is not None else None
                    while y is not None and y.get("k") == "MethodCall":
                        outer.append(y["method"])
                        y = b_.parent(y)
                    how = "closure"
                    break
                if a.get("k") == "Match" and a.get("source", "").startswith("ForLoopDesugar") and hir.is_call(hir.peel(a["scrut"])) and (hir.callee_name(hir.peel(a["scrut"])) or "") == "into_iter":
                    x = hir.peel(hir.call_args(hir.peel(a["scrut"]))[0])
                    while x is not None and x.get("k") == "MethodCall":
                        chain.append(x["method"])
                        x = hir.peel(x["recv"])
                    src = x
                    how = "loop"
                    break
            elementwise = all(m in ("iter", "map", "enumerate", "into_iter", "by_ref", "inspect") for m in chain) and "iter" in chain + ["iter"]
            src_ok = src is not None and (hir.place(src) or "").endswith(".methods") and elementwise and (how == "loop" or (chain[:1] == ["map"] and outer[:2] == ["collect", "join"]) or (chain[:1] == ["for_each"]))
            if how == "closure" and chain[:1] == ["for_each"]:
                src_ok = (hir.place(src) or "").endswith(".methods") and all(m in ("for_each", "iter", "enumerate", "into_iter") for m in chain)
            if how == "loop":
                # ... and every element gets its entry: inside the loop the entry depends on nothing but the
                # iteration itself (seed C05-prologue-key-dropped-when-substring-of-earlier: `continue` when the
                # text built so far *contains* the name - `replace` after `replaceAll` lost its pass-through)
                extra, seen_loop = [], False
                for c_ in b_.conds_at(n):
                    if c_["t"] == "loop":
                        seen_loop = True
                        continue
                    if not seen_loop or c_["t"] == "closure":
                        continue
                    if c_["t"] == "pat" and ("Iterator::next" in hir.describe(c_.get("scrut") or {}) or "next" in hir.describe(c_.get("scrut") or {})):
                        continue
                    if c_["t"] == "bool":
                        # exact-key de-duplication (a set of the names seen so far) drops only repeated keys
                        e_ = hir.peel(c_["e"])
                        while e_.get("k") == "Unary" and e_.get("op") in ("Not", "!"):
                            e_ = hir.peel(e_["arg"] if "arg" in e_ else e_.get("e") or {})
                        if e_.get("k") == "MethodCall" and e_.get("method") in ("insert", "contains") and re.search(r"\b(HashSet|BTreeSet|IndexSet)<", hir.peel(e_["recv"]).get("ty") or ""):
                            continue
                    extra.append(hir.cond_str(c_))
                check.expect(not extra, R, R + "/every-method", hir.loc(n), "inside the loop the entry is unconditional", "some configured names get no pass-through in the prologue: the entry is additionally conditional on %s (the rewritten file calls `_ddiast.<name>` all the same)" % extra)
            check.expect(bool(src_ok), R, R + "/all-methods", hir.loc(n), "one entry per element of csi_methods.methods, in order (element-wise adapters only)", "prologue names are generated by %s over %s then %s" % (chain, hir.describe(src) if src else None, outer))
    check.expect(ok and n_entry == 1, R, R + "/dst-noop", hir.loc(g.rec), "each entry is `<dst>: noop`", "prologue entries are not `<dst>: noop`")
    tpl = prog.js.get("prologue_template")
    if not tpl or not tpl.get("ok"):
        raise AnchorMissing("prologue template parse")
    prog_js = tpl["program"]
    ifs = [x for x in prog_js["body"] if x.get("type") == "IfStatement"]
    ok_if = False
    ns = prog.const_str("visitor_util::DD_GLOBAL_NAMESPACE")
    if len(ifs) == 1:
        t = ifs[0]["test"]
        cmp_ = jsast.strict_eq_literal(t)
        ok_if = bool(cmp_) and cmp_[1] == "undefined" and cmp_[0].get("type") == "UnaryExpression" and cmp_[0]["operator"] == "typeof" and jsast.ident_name(cmp_[0]["argument"]) == ns
    check.expect(ok_if, R, R + "/guard", "src/rewriter.rs", "guarded by typeof %s === 'undefined'" % ns, "the prologue is not guarded by typeof %s === 'undefined'" % ns)
    assigns = [x for x in jsast.walk(prog_js) if x.get("type") == "AssignmentExpression" and (jsast.member_chain(x["left"]) or ["", ""])[-1] == ns]
    ok_as = False
    if len(assigns) == 1:
        a = assigns[0]
        r = a["right"]
        if r.get("type") == "BinaryExpression" and r["operator"] == "||":
            same = jsast.member_chain(r["left"]) == jsast.member_chain(a["left"])
            obj = r["right"]
            vals = [jsast.ident_name(p["value"]) for p in obj.get("properties", []) if p.get("type") == "KeyValueProperty"]
            ok_as = same and obj.get("type") == "ObjectExpression" and vals and set(vals) == {"noop"} and len(vals) == len(obj["properties"])
    check.expect(ok_as, R, R + "/no-overwrite", "src/rewriter.rs", "globals.NS = globals.NS || { name: noop, .. }", "the prologue overwrites an existing hook object or defines something other than pass-throughs")
    noops = [d for d in jsast.walk(prog_js) if d.get("type") == "VariableDeclarator" and jsast.ident_name(d["id"]) == "noop"]
    ok_noop = False
    if len(noops) == 1:
        fnx = noops[0]["init"]
        if fnx.get("type") == "ArrowFunctionExpression" and len(fnx["params"]) == 1:
            ok_noop = jsast.ident_name(fnx["body"]) == jsast.param_name(fnx["params"][0])
    check.expect(ok_noop, R, R + "/pass-through", "src/rewriter.rs", "noop returns its first argument", "noop is not (res) => res")
    tc = prog.fn("lib_wasm::RewriterConfig::to_config")
    gcall = [x for x in hir.calls_in(tc.body, name="generate_prefix_stmts")]
    ok = len(gcall) == 1
    if ok:
        a0 = hir.local_of(hir.call_args(gcall[0])[0])
        lit = [n for n in hir.walk(tc.body) if n.get("k") == "Struct" and (n["res"].get("path") or "").endswith("rewriter::Config")]
        same = False
        for l in lit:
            for fl in l["fields"]:
                if fl["name"] == "csi_methods":
                    same = hir.local_of(fl["e"]) == a0
        ok = bool(a0) and same
    check.expect(ok, R, R + "/same-methods", hir.loc(tc.rec), "prologue generated from the very csi_methods stored in the Config", "the prologue is generated from another method list than the one used for rewriting")


def _default_of(f, expr):
    """('unwrap_or', value) / ('unwrap_or_else', description) for an Option-defaulting expression"""
    e = hir.peel(expr)
    if hir.is_call(e):
        name = hir.callee_name(e) or e.get("method")
        if name == "unwrap_or":
            return ("unwrap_or", hir.lit_value(hir.call_args(e)[1]), hir.place(hir.call_args(e)[0]))
        if name == "unwrap_or_else":
            cl = hir.peel(hir.call_args(e)[1])
            body = hir.peel(cl["body"]) if cl.get("k") == "Closure" else cl
            return ("unwrap_or_else", body, hir.place(hir.peel_transparent(hir.call_args(e)[0])))
        if name == "unwrap_or_default":
            return ("unwrap_or", "<Default>", hir.place(hir.call_args(e)[0]))
    return (None, None, None)


def rule_defaults(check):
    R = "DEFAULTS"
    check.rule(R, "omitted options take the documented defaults: chainSourceMap false, comments false, literals true, dst = src, operator false, allowedWithoutCallee false, prefix = rnd_string(6) over 'a'..='z', telemetry INFORMATION (also for unknown strings)")
    prog = check.prog
    tc = prog.fn("lib_wasm::RewriterConfig::to_config")
    lit = [n for n in hir.walk(tc.body) if n.get("k") == "Struct" and (n["res"].get("path") or "").endswith("rewriter::Config")]
    check.floor(R, "Config literals in to_config", len(lit), 1)
    want = {"chain_source_map": ("chain_source_map", False), "print_comments": ("comments", False), "literals": ("literals", True)}
    for l in lit:
        flds = {x["name"]: x["e"] for x in l["fields"]}
        for field, (opt, dv) in want.items():
            kind, val, src = _default_of(tc, flds[field])
            ok = kind == "unwrap_or" and val is dv and (src or "").endswith("." + opt)
            check.expect(ok, R, "%s/%s" % (R, opt), hir.loc(l), "%s defaults to %s" % (opt, dv), "%s is computed as %s(%r) of %s; documented default %s" % (opt, kind, val, src, dv))
        kind, body, src = _default_of(tc, flds["local_var_prefix"])
        ok = kind == "unwrap_or_else" and hir.is_call(body) and hir.callee_name(body) == "rnd_string" and hir.lit_value(hir.call_args(body)[0]) == 6 and (src or "").endswith(".local_var_prefix")
        check.expect(ok, R, R + "/prefix", hir.loc(l), "prefix defaults to rnd_string(6)", "local_var_prefix default is not rnd_string(6)")
        v = hir.peel(flds["verbosity"])
        ok = hir.is_call(v) and hir.callee_name(v) == "parse" and "TelemetryVerbosity" in v["callee"]["path"] and (hir.place(hir.peel_transparent(hir.call_args(v)[0])) or "").endswith(".telemetry_verbosity")
        check.expect(ok, R, R + "/verbosity-source", hir.loc(l), "verbosity = TelemetryVerbosity::parse(telemetry_verbosity)", "verbosity is not parsed from telemetry_verbosity")
    rs = prog.fn("util::rnd_string")
    lits = [x["lit"]["v"] for x in hir.walk(rs.body) if x.get("k") == "Lit" and x["lit"]["t"] == "str"]
    rng = [x for x in hir.walk(rs.body) if x.get("k") == "Struct" and (x["res"].get("path") or "").endswith("ops::Range")]
    uses_len = any(hir.local_of(fl["e"]) and rs.bindings()[hir.local_of(fl["e"])[0]]["origin"][0] == "param" for x in rng for fl in x["fields"] if fl["name"] == "end")
    check.expect(lits == ["abcdefghijklmnopqrstuvwxyz"] and uses_len, R, R + "/alphabet", hir.loc(rs.rec), "lowercase letters, `length` characters", "rnd_string alphabet %s / length use %s" % (lits, uses_len))
    pa = prog.fn("TelemetryVerbosity::parse")
    arms = {}
    # the fallback of the whole parse: `..unwrap_or(V)` / `unwrap_or_else(|| V)` / `map_or(V, ..)` in parse
    fallback = None
    for x in hir.walk(pa.body):
        if hir.is_call(x) and (hir.callee_name(x) or x.get("method")) in ("unwrap_or", "unwrap_or_else", "map_or", "map_or_else") and len(hir.call_args(x)) > 1:
            d_ = hir.peel(hir.call_args(x)[1])
            if d_.get("k") == "Closure":
                d_ = hir.peel(d_["body"])
            cp_ = (d_.get("res", {}).get("ctor_path") or "")
            if "TelemetryVerbosity::" in cp_:
                fallback = cp_.split("::")[-1]
    # the name table: every match over string patterns in parse or in the functions of its file that yield a
    # verbosity (a `from_name` helper, an `impl FromStr`), read by meaning - the value each documented name
    # ends up with, the wildcard standing for every name that has no arm of its own
    tfile = hir.loc(pa.rec).split(":")[0]
    cands_ = [pa] + [g_ for g_ in prog.user_fns if g_ is not pa and hir.loc(g_.rec).split(":")[0] == tfile and "TelemetryVerbosity" in (g_.rec.get("ret") or "") and not g_.rec.get("gen")]
    n_tables = 0
    upper = False
    for pf_ in cands_:
        for x in hir.walk(pf_.body):
            nm_ = (hir.callee_name(x) or x.get("method") or "") if hir.is_call(x) else ((x.get("res") or {}).get("path") or "").split("::")[-1] if x.get("k") == "Path" else ""
            if nm_ in ("to_uppercase", "to_ascii_uppercase", "eq_ignore_ascii_case", "make_ascii_uppercase"):
                upper = True
        for m in hir.walk(pf_.body):
            if m.get("k") != "Match":
                continue
            table = {}
            for a in m["arms"]:
                strs = []
                for q in hir.walk_pat(a["pat"]):
                    lv = hir.lit_value(hir.peel(q.get("e") or q.get("expr") or {})) if q.get("k") in ("Lit", "Expr") else None
                    if isinstance(lv, str):
                        strs.append(lv)
                    pv_ = hir.pat_variant(q)
                    if isinstance(pv_, tuple) and len(pv_) == 2 and pv_[0] == "lit" and isinstance(pv_[1], str):
                        strs.append(pv_[1])
                b = hir.peel(a["body"])
                for _ in range(2):
                    if b.get("k") == "Call" and (hir.peel(b["f"]).get("res", {}).get("ctor_path") or "").split("::")[-1] in ("Some", "Ok") and b.get("args"):
                        b = hir.peel(b["args"][0])
                val_ = (b.get("res", {}).get("ctor_path") or "").split("::")[-1]
                if val_ in ("None", "Err") or (b.get("k") == "Call" and (hir.peel(b["f"]).get("res", {}).get("ctor_path") or "").split("::")[-1] == "Err"):
                    val_ = fallback or "?"
                if strs:
                    for s_ in set(strs):
                        table[s_] = val_
                elif "guard" not in a and not strs:
                    table.setdefault("_", val_)
            if any(k_ != "_" for k_ in table):
                n_tables += 1
                arms.update({k_: v_ for k_, v_ in table.items() if k_ not in arms})
    check.expect(upper, R, R + "/verbosity-case", hir.loc(pa.rec), "case-insensitive (upper-cased before matching)", "verbosity strings are not upper-cased before matching: `off` / `Debug` are read as unknown names")
    wantv = {"OFF": "Off", "MANDATORY": "Mandatory", "INFORMATION": "Information", "DEBUG": "Debug", "_": "Information"}
    got_ = {k_: arms.get(k_, arms.get("_")) for k_ in wantv}
    extra_ = {k_: v_ for k_, v_ in arms.items() if k_ not in wantv}
    check.expect(n_tables >= 1 and got_ == wantv and not extra_, R, R + "/verbosity-map", hir.loc(pa.rec), "verbosity map %s" % got_, "verbosity strings map to %s%s (documented %s)" % (got_, (" plus %s" % extra_) if extra_ else "", wantv))
    tails = [hir.peel(x) for x in return_exprs(pa.body)]
    none_default = [t for t in tails if (t.get("res", {}).get("ctor_path") or "").endswith("TelemetryVerbosity::Information") and not any(c["t"] == "pat" and c["v"] and "Some" in str(hir.pat_variant(c["pat"])) for c in pa.conds_at(t))]
    # or through Option::map_or / map_or_else on the optional value
    for m_ in hir.walk(pa.body):
        if hir.is_call(m_) and (hir.callee_name(m_) or m_.get("method")) in ("map_or", "map_or_else"):
            d_ = hir.peel(hir.call_args(m_)[1])
            if d_.get("k") == "Closure":
                d_ = hir.peel(d_["body"])
            if (d_.get("res", {}).get("ctor_path") or "").endswith("TelemetryVerbosity::Information") and hir.local_of(hir.call_args(m_)[0]) and pa.bindings()[hir.local_of(hir.call_args(m_)[0])[0]]["origin"][0] == "param":
                none_default.append(d_)
    if not none_default and fallback == "Information":
        # `optional_value.and_then(..).unwrap_or(Information)`: the chain starts at the optional parameter
        for x in hir.walk(pa.body):
            if hir.is_call(x) and (hir.callee_name(x) or x.get("method")) in ("unwrap_or", "unwrap_or_else"):
                r_ = hir.peel(hir.call_args(x)[0])
                while r_.get("k") == "MethodCall":
                    r_ = hir.peel(r_["recv"])
                lr_ = hir.local_of(r_)
                if lr_ and pa.bindings()[lr_[0]]["origin"][0] == "param":
                    none_default.append(x)
    check.expect(len(none_default) >= 1, R, R + "/verbosity-none", hir.loc(pa.rec), "None -> Information", "omitted telemetryVerbosity does not default to Information")
    cm = prog.fn("csi_methods::CsiMethod::new")
    found = False
    for b in cm.nodes():
        kind, body, src = _default_of(cm, b) if hir.is_call(b) else (None, None, None)
        if kind == "unwrap_or_else" and body is not None:
            o = Prov(prog).origins(cm, body)
            found = all(r[0] == "param" and r[2] == 0 for r, p in o) and (src or "").startswith("dst")
    check.expect(found, R, R + "/dst", hir.loc(cm.rec), "dst defaults to src", "CsiMethod::new: dst does not default to src")
    gm = prog.fn("lib_wasm::RewriterConfig::get_csi_methods")
    defs = {}
    for g_ in prog.flat(gm, 2):
        if g_ is not gm and not (g_.file or "").endswith("lib_wasm.rs"):
            continue
        for x in g_.nodes():
            if hir.is_call(x):
                kind, val, src = _default_of(g_, x)
                if kind == "unwrap_or" and src:
                    defs[src.split(".")[-1]] = val
    check.expect(defs == {"operator": False, "allowed_without_callee": False}, R, R + "/method-flags", hir.loc(gm.rec), "operator / allowedWithoutCallee default to false", "method flag defaults are %s" % defs)
    none_arm = [x for x in hir.calls_in(gm.body, name="empty")]
    check.expect(len(none_arm) == 1, R, R + "/no-methods", hir.loc(gm.rec), "no csiMethods -> CsiMethods::empty()", "missing csiMethods is not mapped to the empty configuration")
    d = prog.fn("lib_wasm::RewriterConfig::default")
    for l in [n for n in hir.walk(d.body) if n.get("k") == "Struct"]:
        flds = {}
        for x in l["fields"]:
            e = hir.peel(x["e"])
            if e.get("k") == "Call" and e["args"]:
                inner = hir.peel_transparent(e["args"][0])
                flds[x["name"]] = hir.lit_value(inner)
            else:
                flds[x["name"]] = (e.get("res", {}).get("ctor_path") or "?").split("::")[-1]
        wantd = {"chain_source_map": False, "comments": False, "local_var_prefix": "None", "csi_methods": "None", "telemetry_verbosity": "INFORMATION", "literals": True}
        check.expect(flds == wantd, R, R + "/fallback-config", hir.loc(l), "fallback RewriterConfig = documented defaults", "fallback RewriterConfig is %s" % flds)


def rule_config_plumbing(check):
    R = "CONFIG-PLUMBING"
    check.rule(R, "every configured entry reaches the method list unchanged: get_csi_methods maps each entry (src, dst, operator, allowedWithoutCallee) in that order into CsiMethod::new, which stores each parameter in the field of the same name; CsiMethods::new keeps the complete list")
    prog = check.prog
    pv = Prov(prog)
    gm = prog.fn("lib_wasm::RewriterConfig::get_csi_methods")
    calls_g = [(g_, n) for g_ in prog.flat(gm, 2) if g_ is gm or (g_.file or "").endswith("lib_wasm.rs") for n in hir.walk(g_.body) if hir.is_call(n) and hir.callee_name(n) == "new" and "csi_methods::CsiMethod" in n["callee"]["path"] and "CsiMethods" not in n["callee"]["path"].split("::")[-2]]
    check.floor(R, "CsiMethod::new call sites", len(calls_g), 1)
    for g_call, n in calls_g:
        fields = []
        for a in hir.call_args(n):
            x = hir.peel_transparent(a)
            while hir.is_call(x) and (hir.callee_name(x) or x.get("method")) in ("unwrap_or", "clone"):
                x = hir.peel_transparent(hir.call_args(x)[0])
            fields.append(x["field"] if x.get("k") == "Field" else "?")
        check.expect(fields == ["src", "dst", "operator", "allowed_without_callee"], R, R + "/argument-order", hir.loc(n), "CsiMethod::new(src, dst, operator, allowed_without_callee)", "configuration fields are passed as %s" % fields)
        chain = []
        cl = None
        site_ = n
        if g_call is not gm:
            # the conversion is a helper applied to each entry: look at where get_csi_methods applies it
            ss_ = [c_ for c_ in gm.nodes() if (hir.is_call(c_) or c_.get("callee")) and prog.resolve_local(c_) is g_call]
            site_ = ss_[0] if ss_ else n
        for anc in (gm.ancestors(site_) if any(y is site_ for y in gm.nodes()) else []):
            if anc.get("k") == "Closure":
                cl = anc
                break
        call = gm.parent(cl) if cl else None
        while call is not None and not hir.is_call(call):
            call = gm.parent(call)
        x = call
        while x is not None and x.get("k") == "MethodCall":
            chain.append(x["method"])
            x = hir.peel(x["recv"])
        check.expect(chain == ["map", "iter"], R, R + "/all-entries", hir.loc(n), "every configured entry is mapped", "configured entries go through %s" % chain)
    cn = prog.fn("csi_methods::CsiMethod::new")
    names = [hir.pat_bindings(p["pat"])[0]["name"] for p in cn.rec["params"]]
    for lit in [x for x in hir.walk(cn.body) if x.get("k") == "Struct" and (x["res"].get("path") or "").endswith("CsiMethod")]:
        ok = True
        for fl in lit["fields"]:
            o = pv.origins(cn, fl["e"])
            idx = names.index(fl["name"]) if fl["name"] in names else -1
            good = all(r[0] == "param" and r[2] in (idx, names.index("src") if fl["name"] == "dst" else idx) for r, p in o)
            ok = ok and good
        check.expect(ok, R, R + "/fields", hir.loc(lit), "each field stores the parameter of the same name (dst falls back to src)", "CsiMethod::new stores parameters in other fields")
    new = prog.fn("CsiMethods::new")
    for lit in [x for x in hir.walk(new.body) if x.get("k") == "Struct" and (x["res"].get("path") or "").endswith("CsiMethods")]:
        m = [fl["e"] for fl in lit["fields"] if fl["name"] == "methods"][0]
        x = hir.peel(m)
        ok = hir.is_call(x) and (hir.callee_name(x) or x.get("method")) in ("to_vec", "to_owned", "clone") and hir.local_of(hir.call_args(x)[0]) and new.bindings()[hir.local_of(hir.call_args(x)[0])[0]]["origin"][:2] == ("param", 0)
        check.expect(bool(ok), R, R + "/complete-list", hir.loc(lit), "methods = the complete configured list", "CsiMethods::new does not keep the complete configured list (%s)" % hir.describe(m))


def rule_comments_gate(check):
    R = "COMMENTS-GATE"
    check.rule(R, "the printer is handed the comment store only when the comments option is on: every PrintArgs built by the rewriter has `comments` = Some(..) exactly on paths where config.print_comments holds and None otherwise (with the option off - the default - no comment of the input, of whatever kind, reaches the output)")
    from ..prov import value_exprs
    from .. import gate as _gate

    prog = check.prog
    lits = []
    for f in prog.user_fns:
        if f.rec.get("in_test"):
            continue
        for n in f.nodes():
            if n.get("k") == "Struct" and ((n.get("res") or {}).get("path") or "").split("::")[-1] == "PrintArgs":
                lits.append((f, n))
    check.floor(R, "PrintArgs literals", len(lits), 1)

    def leaves(f, e, depth=0):
        e = hir.peel(e)
        l_ = hir.local_of(e) if e.get("k") == "Path" else None
        if l_ and depth < 4:
            b_ = f.bindings().get(l_[0])
            if b_ and b_["origin"][0] == "let" and b_["origin"][1] is not None and not f.assignments_to(l_[0]):
                return leaves(f, b_["origin"][1], depth + 1)
        if e.get("k") in ("If", "Match", "BlockExpr", "Block"):
            out = []
            for v in value_exprs(e):
                out += leaves(f, v, depth + 1) if hir.peel(v) is not e else [hir.peel(v)]
            return out
        return [e]

    def judge(f, e, depth=0):
        bad = []
        for v in leaves(f, e):
            # `opt.map(|c| c as &dyn Comments)`: present exactly when opt is
            while hir.is_call(v) and (hir.callee_name(v) or v.get("method")) in ("map", "as_ref", "as_deref", "clone", "copied") and hir.call_args(v):
                v = hir.peel(hir.call_args(v)[0])
            if v.get("k") in ("If", "Match", "BlockExpr", "Block") or (v.get("k") == "Path" and hir.local_of(v) and f.bindings().get(hir.local_of(v)[0], {}).get("origin", ("",))[0] == "let"):
                sub = [x for x in leaves(f, v) if x is not v]
                if sub:
                    for x in sub:
                        bad += judge(f, x, depth + 1) if depth < 4 else ["?"]
                    continue
            l_ = hir.local_of(v) if v.get("k") == "Path" else None
            b_ = f.bindings().get(l_[0]) if l_ else None
            if b_ and b_["origin"][0] == "param" and depth < 3:
                # decided by the callers (of the production code)
                ups = [(cf, c) for cf, c in prog.sites_calling(f) if hir.is_call(c) and not cf.rec.get("in_test")]
                if not ups:
                    bad.append("parameter of %s, which nothing calls" % f.name)
                for cf, c in ups:
                    a_ = hir.call_args(c)
                    bad += judge(cf, a_[b_["origin"][1]], depth + 1) if b_["origin"][1] < len(a_) else ["?"]
                continue
            atoms = _gate.atoms_at(f, v)
            on = [a for a in atoms if a[0] == "place" and str(a[1]).split(".")[-1].split("#")[0] == "print_comments"]
            is_none = v.get("k") == "Path" and ((v.get("res") or {}).get("ctor_path") or "").split("::")[-1] == "None"
            is_some = v.get("k") == "Call" and ((hir.peel(v["f"]).get("res") or {}).get("ctor_path") or "").split("::")[-1] == "Some"
            if hir.is_call(v) and (hir.callee_name(v) or v.get("method")) in ("then_some", "then") and hir.call_args(v):
                recv = hir.place(hir.call_args(v)[0]) or ""
                if recv.split(".")[-1].split("#")[0] != "print_comments":
                    bad.append("%s(..) on %s" % (hir.callee_name(v) or v.get("method"), recv or "?"))
                continue
            if is_none:
                if any(a[2] is True for a in on):
                    bad.append("None although comments are asked for")
                continue
            if is_some:
                if not any(a[2] is True for a in on):
                    bad.append("Some(..) on a path where config.print_comments is not known to hold")
                continue
            bad.append(hir.describe(v)[:60])
        return bad

    for f, n in lits:
        flds = {x["name"]: x["e"] for x in n["fields"]}
        if "comments" not in flds:
            check.ok(R, "%s/%s/absent" % (R, f.name), hir.loc(n), "comments left at its default (None)")
            continue
        bad = judge(f, flds["comments"])
        check.expect(not bad, R, "%s/%s/comments" % (R, f.name), hir.loc(n), "comments = Some(store) iff config.print_comments", "the comment store reaches the printer regardless of the comments option (%s): comments of the input are printed with comments off" % "; ".join(sorted(set(bad))))


def run(check):
    check.guarded("CONFIG-PLUMBING", rule_config_plumbing)
    check.guarded("OP-GATE", rule_op_gates)
    check.guarded("JS-CONFIG", rule_js_config)
    check.guarded("COMMENTS-GATE", rule_comments_gate)
    check.guarded("METHOD-GATE", rule_method_gates)
    check.guarded("METHOD-GATE", rule_call_apply_name)
    # the configured name is compared with an *identifier* property only: `obj.#trim()` and `obj["trim"]()`
    # are other operations than the configured `trim`
    from . import c04 as _c04
    from ..engine import Only as _Only
    check.guarded("METHOD-GATE", lambda c: _c04.rule_receiver_table(_Only(c, "RECEIVER-TABLE", "METHOD-GATE", ("/ident-property/",))))
    check.guarded("HOOK-NAMES", rule_names)
    check.guarded("PROLOGUE", rule_prologue)
    check.guarded("DEFAULTS", rule_defaults)
    check.guarded("MODIFIED-HOOK", S.rule_modified_implies_hook)
    return {
        "explanation": "Gate rules (every hook emission dominated by its configuration test, through callers where needed), provenance of the hook name at every emission site, constant evaluation of the namespace and operator names, structure of the prologue template (parsed as JS) and of its generation, and recognised-idiom checks of every documented default.",
        "assumptions": ["serde maps camelCase option names onto the RewriterConfig fields", "configured dst values are identifier names"],
        "not_decided": ["behaviour of the emitted prologue inside a particular realm"],
    }
