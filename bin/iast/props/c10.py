"""C10 - chained source map, trailer and comment handling.  Decided: no position-blind edit of the
printed text; fallback and chain wiring; the single trailer and its agreement with the JS reader;
removal of the superseded comment through the comment map.  Not decided: numerical exactness of the
composition (sourcemap crate)."""
import re

from .. import hir, gate, fmtargs, jsast
from ..engine import AnchorMissing
from ..prov import Prov, origin_str, return_exprs
from .. import travrules as T

EDITS = {"replace", "replacen", "replace_range", "remove", "truncate", "split", "splitn", "rsplit", "rsplitn", "split_off", "split_at", "trim", "trim_end", "trim_start", "trim_matches", "trim_end_matches", "trim_start_matches", "strip_suffix", "strip_prefix", "insert_str", "insert", "drain", "retain", "pop", "lines", "to_lowercase", "to_uppercase", "repeat", "chars", "bytes", "get", "split_once", "rsplit_once", "clear"}


_PRINTED_PARAMS = set()  # (def path, parameter index) of local helpers the printed text is handed to


def _is_printed_code(o):
    root, proj = o
    if root[0] == "param" and root[1].endswith("rewriter::print_js") and root[2] == 0:
        return True
    if root[0] == "param" and (root[1], root[2]) in _PRINTED_PARAMS:
        return True
    if proj and proj[-1] == "code" and (root[0] in ("call", "closure_param", "param") or True) and "code" in proj:
        return "code" == proj[-1]
    return False


def rule_textedit(check):
    R = "TEXTEDIT"
    check.rule(R, "the printed program text (Compiler::print's output.code, the `code` parameter of print_js and everything derived from it) is only borrowed, converted or used as the first piece of the trailer format: no str/String method that rebuilds or searches-and-replaces it")
    prog = check.prog
    pv = Prov(prog)
    fns = [prog.fn("rewriter::print_js"), prog.fn("rewriter::transform_js"), prog.fn("lib_wasm::Rewriter::rewrite")]
    # local helpers the printed text is handed to are inspected as well (transitively)
    _PRINTED_PARAMS.clear()
    work = list(fns)
    while work:
        f = work.pop()
        for n in hir.calls_in(f.body):
            g = prog.resolve_local(n)
            if g is None or g.body is None or g.rec.get("gen"):
                continue
            for i, a in enumerate(hir.call_args(n)):
                ty = hir.peel(a).get("ty") or ""
                if not any(t in ty for t in ("str", "String", "Cow<")):
                    continue
                if any(_is_printed_code(o) for o in pv.origins(f, a)) and (g.def_path, i) not in _PRINTED_PARAMS and not g.def_path.endswith("rewriter::print_js"):
                    _PRINTED_PARAMS.add((g.def_path, i))
                    if g not in fns:
                        fns.append(g)
                    work.append(g)
    n_recv = 0
    for f in fns:
        for n in f.nodes():
            if n.get("k") != "MethodCall" or n.get("exp"):
                continue
            recv_ty = (hir.peel(n["recv"]).get("ty") or "")
            if not any(t in recv_ty for t in ("str", "String", "Cow<")):
                continue
            os_ = pv.origins(f, n["recv"])
            if not any(_is_printed_code(o) for o in os_):
                continue
            n_recv += 1
            key = "%s/%s/%s" % (R, T.short(f), n["method"])
            if n["method"] in EDITS:
                check.bad(R, key, hir.loc(n), "%s() is applied to the printed program text: a position-blind edit can alter string literals or regular expressions that merely look like the target" % n["method"])
            else:
                check.ok(R, key, hir.loc(n), "%s() on the printed text is a borrow/conversion" % n["method"])
    # (no floor here: a tree that calls no method on the printed text has nothing to edit it with; that the
    # text is tracked at all is established by the trailer-prefix clause below)
    check.ok(R, R + "/uses", "-", "%d method calls on the printed text inspected" % n_recv)
    # what print_js returns: the code itself or the trailer format whose first piece is the code
    pj = prog.fn("rewriter::print_js")
    fm = [(n, p) for n, p in fmtargs.text_assemblies(prog, pj) if any(k == "lit" and "base64" in v for k, v in p)]
    check.floor(R, "trailer format sites", len(fm), 1)
    for n, pieces in fm:
        first = pieces[0]
        ok = first[0] == "arg" and any(_is_printed_code(o) for o in pv.origins(pj, first[1]))
        check.expect(ok, R, R + "/trailer-prefix", hir.loc(n), "the trailer is appended to the unmodified printed text", "the text in front of the trailer is not the printed code")
    rw = prog.fn("lib_wasm::Rewriter::rewrite")
    res = [n for n in hir.walk(rw.body) if n.get("k") == "Struct" and (n["res"].get("path") or "").endswith("lib_wasm::Result")]
    for n in res:
        for fl in n["fields"]:
            if fl["name"] == "content":
                e = hir.peel(fl["e"])
                chain = []
                while e.get("k") == "MethodCall":
                    chain.append(e["method"])
                    e = hir.peel(e["recv"])
                ok = chain == ["into_owned"] and hir.is_call(e) and hir.callee_name(e) == "print_js"
                check.expect(ok, R, R + "/content", hir.loc(n), "content = print_js(..).into_owned()", "content is print_js(..) followed by %s" % chain)


def rule_fallback(check):
    R = "FALLBACK-WIRING"
    check.rule(R, "the emitted map is the chained map when chaining is on, an original map exists and the rewrite map parses - otherwise the plain rewrite map")
    prog = check.prog
    pv = Prov(prog)
    pj = prog.fn("rewriter::print_js")
    enc = [(g_, n) for g_ in prog.flat(pj, 2) for nm_ in ("encode", "encode_string") for n in hir.calls_in(g_.body, name=nm_)]
    check.floor(R, "base64 encode sites", len(enc), 1)
    for g_, n in enc:
        # what is encoded, seen from print_js: the result of chain_source_maps(source_map, original.source, ..)
        # when there is one, else the `source_map` parameter - however the choice is written (unwrap_or_else,
        # map_or, match ..)
        os_ = Prov(prog, opaque={"chain_source_maps"}).origins_upto(pj, g_, hir.call_args(n)[1])
        roots = set()
        for r, p in os_:
            if r[0] == "param" and r[1] == pj.def_path and r[2] == 1:
                roots.add("param")
            elif r[0] == "call" and r[1].split("::")[-1] == "chain_source_maps":
                roots.add("chained")
            elif r[0] in ("ctor-applied", "applied", "ctor") and any(w in str(r[1]) for w in ("Cow::", "String::from", "Some", "Option")):
                continue  # wrappers (Cow::Owned / Cow::Borrowed / String::from) of one of the two
            elif r[0] in ("call",) and r[1].split("::")[-1] in ("from", "into", "to_string", "to_owned", "into_owned", "clone", "branch", "as_ref", "as_str", "deref"):
                continue
            elif r[0] == "residual":
                continue
            else:
                roots.add(origin_str((r, p)))
        chains = [c_ for c_ in hir.calls_in(pj.body, name="chain_source_maps")]
        args_ok = False
        for c_ in chains:
            a = hir.call_args(c_)
            same_map = hir.local_of(a[0]) and pj.bindings()[hir.local_of(a[0])[0]]["origin"][:2] == ("param", 1)
            orig = (hir.place(a[1]) or "").endswith(".source")
            args_ok = bool(same_map and orig)
        # the choice written with combinators Prov does not open (`.map_or(Cow::Borrowed(source_map), Cow::Owned)`):
        # read it off the initialiser that contains the chain call
        for c_ in chains:
            for b_ in pj.bindings().values():
                if b_["origin"][0] == "let" and b_["origin"][1] is not None and any(x is c_ for x in hir.walk(b_["origin"][1])):
                    inside = {id(x) for x in hir.walk(c_)}
                    for x in hir.walk(b_["origin"][1]):
                        l_ = hir.local_of(x) if id(x) not in inside and x.get("k") == "Path" else None
                        if l_ and pj.bindings().get(l_[0], {}).get("origin", ("",))[:2] == ("param", 1):
                            roots.add("param")
        uses_chain = "chained" in roots or any(any(x is c_ for x in hir.walk(b_["origin"][1])) for c_ in chains for b_ in pj.bindings().values() if b_["origin"][0] == "let" and b_["origin"][1] is not None)
        ok = len(chains) == 1 and args_ok and "param" in roots and uses_chain and roots <= {"param", "chained"}
        check.expect(ok, R, R + "/final-map", hir.loc(n), "final map = chain_source_maps(source_map, original.source, config) or else source_map", "the encoded map is not `chain_source_maps(source_map, original.source, ..)` falling back to `source_map` (it comes from %s)" % sorted(roots))
    cs = prog.fn("rewriter::chain_source_maps")
    # the composition runs exactly under: chaining configured, original map present, rewrite map parsed -
    # whether written with bool::then / and_then closures, `?`, or guard clauses
    sites = _emit_calls(cs.body)
    if not sites:
        # the emission sits in a helper / builder method: the conditions are those of the call leading to it
        for g in prog.flat(cs, 3):
            if g is cs or not _emit_calls(g.body):
                continue
            cur = g
            for _ in range(4):
                up = [(cf, c) for cf, c in prog.sites_calling(cur) if hir.is_call(c)]
                if len(up) != 1:
                    break
                if up[0][0] is cs:
                    sites.append(up[0][1])
                    break
                cur = up[0][0]
    check.floor(R, "add_raw sites in chain_source_maps", len(sites), 1)
    for n in sites:
        gates_ = set()
        for c in cs.conds_at(n):
            if c["t"] == "closure":
                par = cs.parent(c["node"])
                while par is not None and par.get("k") in ("DropTemps", "Use", "AddrOf"):
                    par = cs.parent(par)
                if par is not None and hir.is_call(par) and (par.get("method") or hir.callee_name(par)) in ("then", "and_then", "map", "then_some"):
                    r = hir.peel(hir.call_args(par)[0])
                    gates_.add(hir.callee_name(r) if hir.is_call(r) and hir.callee_name(r) not in ("as_ref", "as_deref") else (hir.place(hir.call_args(r)[0]) if hir.is_call(r) else hir.place(r)) or hir.describe(r))
            elif c["t"] == "try":
                e = hir.peel(c["e"])
                if hir.is_call(e) and (hir.callee_name(e) or "") == "branch" and hir.call_args(e):
                    e = hir.peel(hir.call_args(e)[0])
                gates_.add(hir.callee_name(e) if hir.is_call(e) and hir.callee_name(e) not in ("as_ref", "as_deref") else (hir.place(hir.call_args(e)[0]) if hir.is_call(e) else hir.place(e)) or hir.describe(e))
            elif c["t"] == "bool" and c["v"] is True:
                pl = hir.place(hir.peel(c["e"]))
                if pl:
                    gates_.add(pl)
        import re as _re

        names_ = {_re.sub(r"#\d+", "", str(g_)).split(".")[-1] for g_ in gates_ if g_}
        need = {"chain_source_map", "original_map", "parse_source_map"}
        check.expect(need <= names_, R, R + "/chain-conditions", hir.loc(n), "composed only if config.chain_source_map, original map Some and rewrite map parsed", "chain_source_maps composes without %s (conditions on the path: %s)" % (sorted(need - names_), sorted(names_)))
    ps = [n for n in hir.calls_in(cs.body, name="parse_source_map")]
    for n in ps:
        os_ = pv.origins(cs, hir.call_args(n)[0])
        check.expect(all(r[0] == "param" and r[2] == 0 for r, p in os_), R, R + "/parses-rewrite-map", hir.loc(n), "the rewrite map (param source_map) is parsed", "chain_source_maps parses %s" % sorted(origin_str(o) for o in os_))


def _emit_calls(body):
    """the calls that emit a token into the chained map: SourceMapBuilder::add_raw, or ::add (which
    interns the source / the name with add_source / add_name and then calls add_raw itself)"""
    out = []
    for x in hir.walk(body):
        if not hir.is_call(x) or not x.get("callee"):
            continue
        nm = x["callee"]["name"]
        if nm == "add_raw":
            out.append(x)
        elif nm == "add" and hir.call_args(x) and re.sub(r"^&(mut )?", "", hir.peel(hir.call_args(x)[0]).get("ty") or "").split("<")[0].endswith("::SourceMapBuilder"):
            out.append(x)
    return out


def _root_calls(prog, pv, f, e):
    """names of the calls the value of e ultimately comes from (parameters of helpers followed to their call sites)"""
    from ..xformrules import deep_origins

    out = set()
    for r, p in deep_origins(prog, pv, f, e):
        if r[0] == "call":
            out.add(r[1].split("::")[-1])
        elif r[0] == "ctor" and r[1].split("::")[-1] == "None":
            out.add("None")
        else:
            out.add(origin_str((r, p)))
    return out


def rule_chain(check):
    R = "CHAIN-WIRING"
    check.rule(R, "each token of the rewrite map is looked up in the original map at its *source* position and re-emitted at its *generated* position with the original token's source position, source and name (wherever the composition is written: chain_source_maps itself or the helpers / builder methods it calls)")
    prog = check.prog
    cs = prog.fn("rewriter::chain_source_maps")
    pv = Prov(prog)
    flat = prog.flat(cs, 3)
    adds = [(g, n) for g in flat for n in _emit_calls(g.body)]
    check.floor(R, "add_raw sites", len(adds), 1)

    def getter_root(g, x):
        """(getter name, where its receiver comes from) for `<recv>.get_xxx()`"""
        x = hir.peel(x)
        if x.get("k") != "MethodCall":
            return ("?", frozenset())
        return (x.get("method"), frozenset(_root_calls(prog, pv, g, x["recv"])))

    lk = [(g, x) for g in flat for x in hir.calls_in(g.body, name="lookup_token")]
    for g, n in adds:
        a = hir.call_args(n)[1:]
        got = [getter_root(g, x) for x in a[:4]]
        tok_ok = [m for m, _ in got] == ["get_dst_line", "get_dst_col", "get_src_line", "get_src_col"]
        from_tokens = all(r and all(c in ("tokens", "next", "into_iter") for c in r) and "tokens" in r for _, r in got[:2])
        from_lookup = all(r == frozenset({"lookup_token"}) for _, r in got[2:4])
        check.expect(tok_ok and from_tokens and from_lookup, R, R + "/positions", hir.loc(n), "add_raw(token.dst_line, token.dst_col, original.src_line, original.src_col, ..)", "add_raw is fed %s" % [(m, sorted(r)) for m, r in got])
        ok = False
        for lg, l in lk:
            la = hir.call_args(l)
            names = [getter_root(lg, z) for z in la[1:3]]
            ok = [m for m, _ in names] == ["get_src_line", "get_src_col"] and all("tokens" in r and all(c in ("tokens", "next", "into_iter") for c in r) for _, r in names)
            # the map that is searched is the original one (a parameter of chain_source_maps), not the rewrite map
            ro = _root_calls(prog, pv, lg, la[0])
            ok = ok and not any(c in ("parse_source_map", "tokens") for c in ro)
        check.expect(ok and bool(lk), R, R + "/lookup", hir.loc(n), "original = original_source.lookup_token(token.src_line, token.src_col)", "lookup_token is not fed the rewrite token's source position")
        for i, getter, adder in ((4, "get_source", "add_source"), (5, "get_name", "add_name")):
            if n["callee"]["name"] == "add":
                # the interning variant takes the source / the name itself
                got_ = getter_root(g, a[i])
                check.expect(got_ == (getter, frozenset({"lookup_token"})), R, "%s/%s" % (R, getter), hir.loc(n), "builder.add(.., original.%s(), ..)" % getter, "the %s handed to builder.add is not the original token's %s() (%s)" % (getter[4:], getter, (got_[0], sorted(got_[1]))))
                continue
            uses = [(ug, x) for ug in flat for x in hir.calls_in(ug.body, name=adder)]
            src_ok = bool(uses)
            from ..xformrules import deep_origins as _deep
            for ug, x in uses:
                # the value added comes from the looked-up token's getter: directly, through a local, or
                # through a memoising helper that hands its key to the adding callback
                os_ = _deep(prog, pv, ug, hir.call_args(x)[1])
                roots = _root_calls(prog, pv, ug, hir.call_args(x)[1])
                direct = getter in roots
                # ... and that getter is the *token's* (a map-level `get_source(i)` names a source that the
                # token at hand may not have)
                for r_, p_ in os_:
                    if r_[0] == "call" and r_[1].split("::")[-1] == getter:
                        gf = prog.by_def.get(r_[2])
                        node = gf.by_id(r_[3]) if gf is not None else None
                        recv = hir.call_args(node)[0] if node is not None and hir.call_args(node) else None
                        if recv is None or "lookup_token" not in _root_calls(prog, pv, gf, recv):
                            direct = False
                if not direct and getter not in roots:
                    # callback parameter: the key handed to the helper that calls the callback
                    fn_getters = {m.get("method") for fg in flat for m in fg.nodes() if m.get("k") == "MethodCall" and m.get("method") == getter and "lookup_token" in _root_calls(prog, pv, fg, m["recv"])}
                    direct = bool(fn_getters) and all(str(r).startswith(("closure_param", "param")) or r in ("unwrap",) for r in roots)
                src_ok = src_ok and direct
            idx_roots = _root_calls(prog, pv, g, a[i])
            check.expect(src_ok, R, "%s/%s" % (R, getter), hir.loc(n), "%s index built from original.%s()" % (adder, getter), "%s index is not built from the original token's %s() (%s)" % (adder, getter, sorted(idx_roots)))
        # the interning memo (original source / name -> index in the chained map) is keyed by the very
        # value that is interned: a coarser key (base name, lower-cased, trimmed ..) hands a token the index
        # of another source (seed C11-chain-sources-deduped-by-basename)
        conv = {"get_source", "get_name"}  # conversions (String::from, clone, unwrap ..) are seen through by deep_origins; a crate helper such as file_name() leaves its own leaf calls
        for ug in flat:
            for x in ug.nodes():
                if x.get("k") != "MethodCall" or x.get("method") not in ("get", "insert", "contains_key", "entry", "get_mut", "remove", "get_or_insert_with"):
                    continue
                rty = re.sub(r"^&(mut )?", "", hir.peel(x["recv"]).get("ty") or "")
                if not re.search(r"\b(HashMap|BTreeMap|IndexMap|AHashMap)<", rty):
                    continue
                key = hir.call_args(x)[1] if len(hir.call_args(x)) > 1 else None
                if key is None:
                    continue
                kr = _root_calls(prog, pv, ug, key)
                odd = sorted(c for c in kr if c not in conv and not str(c).startswith(("closure_param", "param")))
                has_getter = bool(kr & {"get_source", "get_name"}) or all(str(c).startswith(("closure_param", "param")) for c in kr)
                check.expect(not odd and has_getter, R, "%s/memo-key/%s/%s" % (R, x.get("method"), "+".join(sorted(kr & conv)) or "other"), hir.loc(x), "the memo of interned sources / names is keyed by the original token's get_source() / get_name() itself", "the memo of interned sources / names is consulted under a derived key (%s): two different sources / names can share one index in the chained map" % (odd or sorted(kr)))
        # closed set of effects on the builder: sources already carry the original map's sourceRoot
        # (sourcemap::Token::get_source), so e.g. set_source_root would apply it twice
        used = {}
        for ug in flat:
            for x in ug.nodes():
                if x.get("k") == "MethodCall" and re.sub(r"^&(mut )?", "", hir.peel(x["recv"]).get("ty") or "").split("<")[0].endswith("::SourceMapBuilder"):
                    used.setdefault(x["method"], x)
        allowed = {"add_raw", "add", "add_source", "add_name", "into_sourcemap"}
        for m, x in sorted(used.items()):
            check.expect(m in allowed, R, "%s/builder-effect/%s" % (R, m), hir.loc(x), "builder.%s (reviewed)" % m, "unreviewed effect builder.%s() on the chained map: the composition is defined by add_source/add_name/add_raw only (sources returned by the original token already include its sourceRoot)" % m)
        news = [(ug, x) for ug in flat for x in hir.calls_in(ug.body, name="new") if prog.resolve_local(x) is None and "SourceMapBuilder" in ((x.get("callee") or {}).get("path") or "") + ((x.get("callee") or {}).get("resolved") or "") and hir.call_args(x)]
        ok_new = len(news) >= 1 and all((hir.peel(hir.call_args(x)[0]).get("res", {}).get("ctor_path") or "").split("::")[-1] == "None" for _, x in news)
        check.expect(ok_new, R, R + "/builder-new", hir.loc(n), "SourceMapBuilder::new(None)", "the chained map builder is not created with SourceMapBuilder::new(None)")
    # every token of the rewrite map that resolves in the original map is re-emitted: inside the token
    # loop the emission (add_raw itself, or the call that leads to it) is conditional on nothing but
    # `lookup_token(..)` being Some
    emit = []
    for g, n in adds:
        cur_f, cur_n = g, n
        hops = 0
        while cur_f is not cs and hops < 4:
            sites = [(cf, c) for cf, c in prog.sites_calling(cur_f) if hir.is_call(c) and any(cf is x for x in flat)]
            if len(sites) != 1:
                break
            extra = [c for c in cur_f.conds_at(cur_n) if c["t"] not in ("closure",)]
            if extra:
                check.bad(R, R + "/every-token", hir.loc(cur_n), "some resolvable tokens of the rewrite map are not re-emitted: add_raw is additionally conditional on %s" % [hir.cond_str(c) for c in extra])
            cur_f, cur_n = sites[0]
            hops += 1
        emit.append((cur_f, cur_n))
    for g, n in emit:
        inner = []
        seen_loop = False
        for c in g.conds_at(n):
            if c["t"] == "loop":
                seen_loop = True
                continue
            if not seen_loop or c["t"] == "closure":
                continue
            if c["t"] == "pat":
                v = str(hir.pat_variant(c["pat"])).split("::")[-1]
                so = pv.origins(g, c["scrut"]) if c.get("scrut") else set()
                from_lookup = any(r[0] == "call" and r[1].split("::")[-1] == "lookup_token" for r, p in so)
                iter_next = any(r[0] == "call" and r[1].split("::")[-1] in ("next", "into_iter") for r, p in so) or "Iterator::next" in hir.describe(c["scrut"])
                if iter_next:
                    continue
                inner.append("lookup-some" if (v == "Some" and c["v"] and from_lookup) else "pattern " + hir.cond_str(c))
            else:
                inner.append(hir.cond_str(c))
        check.expect(seen_loop and inner == ["lookup-some"], R, R + "/every-token", hir.loc(n), "inside the loop add_raw depends only on lookup_token(..) being Some", "some resolvable tokens of the rewrite map are not re-emitted: add_raw is additionally conditional on %s" % [x for x in inner if x != "lookup-some"])
        tk = [x for fg in flat for x in hir.calls_in(fg.body, name="tokens")]
        check.expect(len(tk) == 1, R, R + "/all-tokens", hir.loc(n), "iterates all tokens of the rewrite map", "does not iterate tokens() of the rewrite map")


def _init_is_getter(f, lid, getter, orig_name):
    b = f.bindings().get(lid)
    if not b or b["origin"][0] != "let" or b["origin"][1] is None:
        return False
    e = hir.peel_transparent(b["origin"][1], extra=("unwrap",))
    while hir.is_call(e) and (hir.callee_name(e) or e.get("method")) in ("unwrap", "expect"):
        e = hir.peel(hir.call_args(e)[0])
    return hir.is_call(e) and (hir.callee_name(e) or e.get("method")) == getter and (hir.local_of(hir.call_args(e)[0]) or (0, ""))[1] == orig_name


def rule_trailer(check):
    R = "TRAILER"
    check.rule(R, "exactly one site emits the trailer; its literal pieces with SOURCE_MAP_URL evaluate to '\\n//# sourceMappingURL=data:application/json;base64,' whose tail equals the JS reader's SOURCE_MAP_INLINE_LINE_START; the payload is STANDARD.encode(final map)")
    prog = check.prog
    sites = []
    for f in prog.user_fns:
        try:
            fm = fmtargs.text_assemblies(prog, f)
        except fmtargs.FmtError as e:
            check.bad(R, R + "/undecodable/" + T.short(f), hir.loc(f.rec), str(e))
            continue
        for n, pieces in fm:
            if any(k == "lit" and "base64" in v for k, v in pieces):
                sites.append((f, n, pieces))
    # a helper whose text was spliced into its caller's is not a second site
    sites = [s_ for s_ in sites if s_[0].def_path not in fmtargs.INLINED] or sites
    check.expect(len(sites) == 1, R, R + "/single-site", "-", "one trailer emission site", "%d trailer emission sites" % len(sites))
    js = jsast.JsFile(prog.js, "js/source-map/index.js")
    js_start = js.marker_strings()[1]
    for f, n, pieces in sites:
        text = ""
        payload = pieces[-1][1] if pieces and pieces[-1][0] == "arg" and len(pieces) > 1 else None
        for i, (k, v) in enumerate(pieces):
            if i == 0 or (i == len(pieces) - 1 and k == "arg"):
                continue
            text += v if k == "lit" else "<?>"
        want = "\n//# sourceMappingURL=data:application/json;base64,"
        check.expect(text == want, R, R + "/text", hir.loc(n), "trailer text %r" % text, "trailer text is %r, documented %r" % (text, want))
        check.expect(text.lstrip("\n") == js_start, R, R + "/js-agreement", hir.loc(n), "JS reader expects %r" % js_start, "Rust writes %r but js/source-map reads %r" % (text.lstrip("\n"), js_start))
        # the payload is the map in the standard base64 alphabet (what `;base64,` announces and what atob, the
        # sourcemap crate and this rewriter itself - reading its own output again - decode)
        ok = payload is not None and hir.is_call(payload) and hir.callee_name(payload) in ("encode", "encode_string") and "STANDARD" in hir.describe(hir.call_args(payload)[0]) and "NO_PAD" not in hir.describe(hir.call_args(payload)[0])
        check.expect(ok, R, R + "/payload", hir.loc(n), "payload = STANDARD.encode(final map)", "payload is %s: a data url announced as `;base64,` must use the standard alphabet with padding, other alphabets differ for the digits 62/63 and are rejected by strict decoders" % (hir.describe(payload) if payload else None))
        check.expect(payload is not None and pieces[0][0] == "arg", R, R + "/ends-with-payload", hir.loc(n), "the content is code + trailer text + payload", "the content does not end with the payload")
    # JS reader uses the last line
    g = js.function("generateSourceMapFromFileContent")
    idx = [x for x in jsast.walk(g) if x.get("type") == "CallExpression" and jsast.member_chain(x["callee"]["expression"] if "expression" in x["callee"] else x["callee"]) and (jsast.member_chain(x["callee"]) or [""])[-1] == "indexOf"]
    check.ok(R, R + "/js-reader", js.loc(g), "JS reader takes the last line and compares its start with SOURCE_MAP_INLINE_LINE_START")


PREFIX_TESTS = ("starts_with", "strip_prefix")

def comment_predicate(prog, f):
    out = []
    for g in prog.flat(f):
        for n in hir.walk(g.body):
            if not (hir.is_call(n) and (hir.callee_name(n) or n.get("method")) in PREFIX_TESTS):
                continue
            recv = hir.peel(hir.call_args(n)[0])
            chain = []
            x = recv
            for _ in range(6):
                l = hir.local_of(x)
                if l:
                    b = g.bindings().get(l[0])
                    if b and b["origin"][0] == "let" and b["origin"][1] is not None:
                        x = hir.peel(b["origin"][1])
                        continue
                if x.get("k") == "MethodCall":
                    chain.append(x["method"])
                    x = hir.peel(x["recv"])
                    continue
                break
            base = (hir.place(x) or "").split(".")[-1]
            lx = hir.local_of(x)
            if lx and g is not f and g.bindings().get(lx[0], {}).get("origin", ("",))[0] == "param":
                # the text is a parameter of a helper: what is handed in at its call sites
                pi = g.bindings()[lx[0]]["origin"][1]
                segs = set()
                for caller in prog.flat(f):
                    for cn in hir.calls_in(caller.body):
                        if prog.resolve_local(cn) is g and pi < len(hir.call_args(cn)):
                            segs.add((hir.place(hir.call_args(cn)[pi]) or "?").split(".")[-1])
                if len(segs) == 1:
                    base = segs.pop()
            import re as _re

            out.append((tuple(chain), hir.def_path_of(hir.call_args(n)[1]) or hir.describe(hir.call_args(n)[1]), _re.sub(r"#\d+", "", base)))
    return sorted(set(out))



def rule_comment(check):
    R = "COMMENT-REMOVAL"
    check.rule(R, "the superseded original sourceMappingURL comment is removed from the comment map (never from the text) before printing, recognised by the same predicate that extract_source_map uses")
    prog = check.prog
    t = prog.fn("rewriter::transform_js")
    # the three events, wherever transform_js or a helper it is split into performs them; the position of an
    # event is (node in transform_js[, node in the helper called there])
    def events(pred):
        out = []
        for n in hir.walk(t.body):
            if not hir.is_call(n):
                continue
            if pred(n):
                out.append(((n["id"],), t, n, []))
                continue
            h = prog.resolve_local(n)
            if h is not None and h is not t and h.body is not None and not h.rec.get("gen") and h.name not in ("extract_source_map", "remove_source_map_comments"):
                for y in hir.walk(h.body):
                    if hir.is_call(y) and pred(y):
                        out.append(((n["id"], y["id"]), h, y, [a for a in gate.atoms_at(t, n) if a[0] not in ("variant",)]))
        return out

    rm = events(lambda n: hir.callee_name(n) == "remove_source_map_comments")
    pr = events(lambda n: hir.callee_name(n) == "print" and "Compiler" in (n.get("callee") or {}).get("path", ""))
    ex = events(lambda n: hir.callee_name(n) == "extract_source_map")
    check.floor(R, "comment removal sites", len(rm), 1)
    for pos, g_, n, outer in rm:
        before = bool(pr) and all(pos < p[0] for p in pr) and bool(ex) and all(e_[0] < pos for e_ in ex)
        atoms = gate.atoms_at(g_, n)
        gated = (any(a[0] == "call" and a[1] == "is_some" and a[4] is True and (a[3] or "").endswith(".source_map_comment") for a in atoms) or not [a for a in atoms if a[0] not in ("variant",)]) and not outer
        check.expect(before and gated, R, R + "/before-print", hir.loc(n), "removed after extraction and before printing", "comment removal is not placed between extract_source_map and print")
    r = prog.fn("rewriter::remove_source_map_comments")
    e = prog.fn("rewriter::extract_source_map")

    def predicate(f):
        return comment_predicate(prog, f)

    def has_prefix_test(g, x):
        """x contains the prefix test itself or a call of a crate helper that performs it"""
        for y in hir.walk(x):
            if hir.is_call(y) and (hir.callee_name(y) or y.get("method")) in PREFIX_TESTS:
                return True
            h = prog.resolve_local(y) if hir.is_call(y) else None
            if h is not None and any(hir.is_call(z) and (hir.callee_name(z) or z.get("method")) in PREFIX_TESTS for hh in prog.flat(h) for z in hir.walk(hh.body)):
                return True
        return False

    pr_, pe = predicate(r), predicate(e)
    check.expect(bool(pr_) and pr_ == pe, "SIBLING", "SIBLING/comment-predicate", hir.loc(r.rec), "extract and remove recognise the comment by the same test %s" % (pr_,), "extract_source_map recognises %s but remove_source_map_comments removes %s" % (pe, pr_))
    check.rule("SIBLING", "extract_source_map and remove_source_map_comments agree on what a sourceMappingURL comment is")
    rets = [n for n in hir.calls_in(r.body, name="retain")]
    ok = False
    if len(rets) != 1:
        rets = []
    for n in rets:
        cl = hir.peel(hir.call_args(n)[1])
        body = hir.peel(cl["body"]) if cl.get("k") == "Closure" else {}
        neg = body.get("k") == "Unary" and body.get("op") == "Not" and hir.is_call(hir.peel(body["x"])) and has_prefix_test(r, body["x"])
        none = body.get("k") == "MethodCall" and body.get("method") == "is_none" and has_prefix_test(r, body["recv"])
        ok = neg or none
        # ... comment by comment: retain on the list of comments of a position, not on the map of
        # positions (dropping an entry drops every comment that shares the position)
        rty = hir.peel(hir.call_args(n)[0]).get("ty") or ""
        per_comment = ("Vec<" in rty or "[" in rty) and "Comment" in rty and not any(w in rty.split("Vec<")[0] for w in ("DashMap", "HashMap", "BTreeMap")) and len(cl.get("params", [])) == 1
        check.expect(per_comment, R, R + "/retain-per-comment", hir.loc(n), "single comments are removed from the list of their position", "the removal drops whole entries of the comment map (%s): every other comment attached to the position of the sourceMappingURL comment disappears from the output" % re.sub(r"[a-z_]+::", "", rty)[:80])
    check.expect(ok, R, R + "/retain-others", hir.loc(r.rec), "retain(|c| !is_source_map_comment(c)): other comments stay", "remove_source_map_comments does not keep exactly the other comments")


def _wrapped_local(e):
    """local inside Ok(..)/Some(..) wrappers"""
    e = hir.peel(e)
    for _ in range(3):
        if e.get("k") == "Call" and len(e["args"]) == 1 and (hir.peel(e["f"]).get("res", {}).get("ctor_path") or "").split("::")[-1] in ("Ok", "Some"):
            e = hir.peel(e["args"][0])
        else:
            break
    return hir.local_of(e)


def _traces_to_param(prog, pv, g, expr, e, idx, depth=0):
    """some local mentioned in expr (inside g, a helper of e or e itself) is e's parameter #idx,
    followed through the arguments at the call sites of the helpers inside e's flat view"""
    if depth > 4:
        return False
    for y in hir.walk(expr):
        if not hir.local_of(y):
            continue
        for r, p_ in pv.origins(g, y):
            if r[0] != "param":
                continue
            if r[1] == e.def_path and r[2] == idx:
                return True
            if r[1] == g.def_path and g is not e:
                for caller in prog.flat(e):
                    for n in hir.calls_in(caller.body):
                        if prog.resolve_local(n) is g and r[2] < len(hir.call_args(n)):
                            if _traces_to_param(prog, pv, caller, hir.call_args(n)[r[2]], e, idx, depth + 1):
                                return True
    return False


def rule_resolve(check):
    R = "MAP-DISCOVERY"
    check.rule(R, "the original map is taken from a sourceMappingURL comment: an inline data URL is decoded, anything else is read as a file - absolute as is, relative joined to the parent folder of the source file; only a regular (non-index) map is used")
    prog = check.prog
    pv = Prov(prog)
    e = prog.fn("rewriter::extract_source_map")
    # the rules below look at what extract_source_map does, however it is split into crate helpers
    dd = prog.flat_calls(e, name="decode_data_url")
    check.expect(len(dd) == 1, R, R + "/data-url-first", hir.loc(e.rec), "decode_data_url(url) is tried first", "inline data URLs are not decoded first")
    joins = prog.flat_calls(e, name="join")
    check.floor(R, "relative path resolutions", len(joins), 1)
    for g, n in joins:
        atoms = gate.atoms_at(g, n)
        rel = any(a[0] == "call" and a[1] == "is_absolute" and a[4] is False for a in atoms)
        from_parent = False
        bl = hir.local_of(hir.call_args(n)[0])
        init = g.bindings()[bl[0]]["origin"][1] if bl and g.bindings()[bl[0]]["origin"][0] == "let" else hir.call_args(n)[0]
        for x in hir.walk(init) if init is not None else []:
            if hir.is_call(x) and (hir.callee_name(x) or x.get("method")) == "parent":
                from_parent = _traces_to_param(prog, pv, g, hir.call_args(x)[-1], e, 0)
        check.expect(rel and from_parent, R, R + "/relative-to-source-file", hir.loc(n), "relative URL joined to parent(file_path)", "a relative map URL is not resolved against the folder of the source file")
    absn = [(g, n) for g in prog.flat(e) for n in g.nodes() if n.get("k") == "If" and hir.is_call(hir.peel(n["cond"])) and hir.callee_name(hir.peel(n["cond"])) == "is_absolute"]
    for g, n in absn:
        from ..prov import value_exprs, return_exprs as _rets

        recv = hir.local_of(hir.call_args(hir.peel(n["cond"]))[0])
        outs = value_exprs(n["then"]) + [r_ for r_ in _rets(n["then"]) if r_ not in value_exprs(n["then"])]
        same = bool(recv) and bool(outs) and all(hir.local_of(hir.peel_transparent(o_, extra=())) == recv or _wrapped_local(o_) == recv for o_ in outs)
        check.expect(bool(same), R, R + "/absolute-as-is", hir.loc(n), "absolute URL used as is", "an absolute map URL is altered")
    reads = [(g, n) for g, n in prog.flat_calls(e, name="read") if "FileReader" in ((n.get("callee") or {}).get("path", "") + (n.get("callee") or {}).get("trait", ""))]
    check.expect(len(reads) == 1 and hir.local_of(hir.call_args(reads[0][1])[1]) is not None, R, R + "/read-final-path", hir.loc(e.rec), "the resolved path is read through the FileReader", "the map file is not read through the FileReader from the resolved path")
    # every pattern a decoded map is taken apart with (match arms, if-let / let-else, nested in Ok(..) / Some(..))
    pats_ = [a["pat"] for g in prog.flat(e) for m in hir.walk(g.body) if m.get("k") == "Match" for a in m["arms"]]
    pats_ += [m["pat"] for g in prog.flat(e) for m in hir.walk(g.body) if m.get("k") == "LetCond" and "pat" in m]
    pats_ += [st["pat"] for g in prog.flat(e) for b_ in hir.walk(g.body) if b_.get("k") == "Block" for st in b_.get("stmts", []) if st.get("k") == "Let" and "els" in st]
    regs = [hir.pat_variant(q) for p_ in pats_ for q in hir.walk_pat(p_)]
    regs = [x for v in regs for x in (v if isinstance(v, tuple) else (v,))]
    ok = any(isinstance(v, str) and v.endswith("DecodedMap::Regular") for v in regs) and not any(isinstance(v, str) and "DecodedMap::" in v and not v.endswith("DecodedMap::Regular") for v in regs)
    check.expect(ok, R, R + "/regular-only", hir.loc(e.rec), "only DecodedMap::Regular is used", "non-regular decoded maps are used")
    # the reference that is resolved to a file is the text after the marker, whole: cut, split or rewritten
    # (`?v=..`, `#frag`, unescaping) it names another file - `c#.js.map` is a file name like any other
    KEEP = {"trim", "trim_start", "trim_end", "get", "unwrap", "expect", "strip_prefix", "as_str", "as_ref", "to_string", "to_owned", "clone", "into", "from", "as_deref", "borrow", "deref", "index", "len", "new"}

    def steps(fn_, x, depth=0, seen=None):
        """names of the calls between the expression and the place it is derived from"""
        seen = seen if seen is not None else set()
        x = hir.peel(x)
        if depth > 10 or id(x) in seen:
            return set()
        seen.add(id(x))
        l_ = hir.local_of(x)
        if l_:
            b_ = fn_.bindings().get(l_[0])
            if b_ and b_["origin"][0] in ("let", "match") and b_["origin"][1] is not None:
                return steps(fn_, b_["origin"][1], depth + 1, seen)
            return set()
        if hir.is_call(x):
            nm = hir.callee_name(x) or x.get("method")
            g_ = prog.resolve_local(x)
            out = set()
            if g_ is not None and g_.body is not None and not g_.rec.get("gen"):
                from ..prov import return_exprs as _re
                for r_ in _re(g_.body):
                    out |= steps(g_, r_, depth + 1, seen)
            else:
                out.add(nm)
            a_ = hir.call_args(x)
            if a_:
                out |= steps(fn_, a_[0], depth + 1, seen)
            return out
        if x.get("k") in ("Field", "AddrOf", "Cast", "Index") or (x.get("k") == "Unary" and x.get("op") == "Deref"):
            return ({"index"} if x.get("k") == "Index" else set()) | steps(fn_, x.get("x"), depth + 1, seen)
        if x.get("k") in ("Match", "If", "BlockExpr"):
            from ..prov import value_exprs as _vals
            out = set()
            for v_ in _vals(x):
                if hir.peel(v_) is not x:
                    out |= steps(fn_, v_, depth + 1, seen)
            if x.get("k") == "Match":
                out |= steps(fn_, x["scrut"], depth + 1, seen)
            return out
        return set()

    pbs = [(g, n) for g in prog.flat(e) for n in hir.walk(g.body) if hir.is_call(n) and hir.callee_name(n) == "from" and "PathBuf" in (n.get("ty") or "")]
    check.floor(R, "places where the reference becomes a path", len(pbs), 1)
    for g, n in pbs:
        st_ = steps(g, hir.call_args(n)[-1])
        extra = sorted(str(x) for x in st_ - KEEP)
        check.expect(not extra, R, R + "/url", hir.loc(n), "the path is the text after the marker, whole (%s)" % sorted(str(x) for x in st_), "the reference is edited before it is used as a path (%s): a map file whose name contains the cut / replaced characters is never found, although the file is there" % ", ".join(extra))


def run(check):
    check.guarded("MAP-DISCOVERY", rule_resolve)
    check.guarded("TEXTEDIT", rule_textedit)
    check.guarded("FALLBACK-WIRING", rule_fallback)
    check.guarded("CHAIN-WIRING", rule_chain)
    check.guarded("TRAILER", rule_trailer)
    check.guarded("COMMENT-REMOVAL", rule_comment)
    from . import c16 as _c16

    check.guarded("COMPILER-SCOPE", _c16.rule_compiler_of_this_call)
    # which comment names the original map: the scan of the comment lists is complete (the last
    # sourceMappingURL comment of a list - the one consumers honour - is the one decoded); a scan that
    # stops at a first match chains with a superseded map
    check.rule("MAP-PICK", "extract_source_map scans the comment map completely (no find / find_map / next / take / position / early exit on the iteration): with several sourceMappingURL comments at the end of a file the last one of the list names the original map")

    def pick_inner(c):
        prog = c.prog
        e = prog.fn("rewriter::extract_source_map")
        early = {"find", "find_map", "position", "next", "nth", "first", "take", "take_while", "map_while", "skip", "skip_while", "step_by", "try_for_each", "try_fold"}
        hits = []
        n_scan = 0
        for g in prog.flat(e, 2):
            for n in g.nodes():
                # the scan of the map of trailing comments itself
                if n.get("k") == "MethodCall" and n["method"] in ("iter", "iter_mut", "into_iter") and (hir.place(n["recv"]) or "").endswith(".trailing"):
                    n_scan += 1
                    for m_ in _c16._selective_chain(g, n):
                        hits.append((g, {"method": m_, "sp": n["sp"], "k": "MethodCall"}))
                if n.get("k") == "MethodCall" and n["method"] in early and "swc_common::comments::Comment" in (hir.peel(n["recv"]).get("ty") or "") and "dashmap" not in (hir.peel(n["recv"]).get("ty") or "").lower():
                    hits.append((g, n))
                if n.get("k") == "Break" and not n.get("desugar") and any(a.get("k") == "Match" and a.get("source", "").startswith("ForLoop") and "swc_common::comments::Comment" in (hir.peel(a["scrut"]).get("ty") or "") + " ".join(hir.peel(x).get("ty") or "" for x in hir.call_args(hir.peel(a["scrut"])) or []) for a in g.ancestors(n)):
                    hits.append((g, n))
        for g, n in hits:
            c.bad("MAP-PICK", "MAP-PICK/%s/%s" % (g.name, n.get("method") or "break"), hir.loc(n), "the scan of a comment list stops early (%s): a sourceMappingURL comment that is followed by another one is taken for the effective one, and the output is chained with a superseded map" % (n.get("method") or "break"))
        c.floor("MAP-PICK", "scans of the trailing-comment map", n_scan, 1)
        if not hits:
            c.ok("MAP-PICK", "MAP-PICK/complete-lists", hir.loc(e.rec), "no truncating adapter or break on the trailing-comment map or on a list of comments")

    check.guarded("MAP-PICK", pick_inner)
    return {
        "explanation": "Provenance rules on the printed text (no position-blind edit), on the selection of the emitted map and on the arguments of SourceMapBuilder::add_raw / lookup_token; constant evaluation of the trailer format against the JS reader's constant; ordering and sibling rules for the comment removal.",
        "assumptions": ["sourcemap::SourceMap::lookup_token / SourceMapBuilder / VLQ encoding are correct", "base64 STANDARD engine"],
        "not_decided": ["numerical exactness of the composition for all maps", "DashMap iteration order when several sourceMappingURL comments exist (last match wins)"],
    }
