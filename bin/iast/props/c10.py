"""C10 - chained source map, trailer and comment handling.  Decided: no position-blind edit of the
printed text; fallback and chain wiring; the single trailer and its agreement with the JS reader;
removal of the superseded comment through the comment map.  Not decided: numerical exactness of the
composition (sourcemap crate)."""
from .. import hir, gate, fmtargs, jsast
from ..engine import AnchorMissing
from ..prov import Prov, origin_str, return_exprs
from .. import travrules as T

EDITS = {"replace", "replacen", "replace_range", "remove", "truncate", "split", "splitn", "rsplit", "rsplitn", "split_off", "split_at", "trim", "trim_end", "trim_start", "trim_matches", "trim_end_matches", "trim_start_matches", "strip_suffix", "strip_prefix", "insert_str", "insert", "drain", "retain", "pop", "lines", "to_lowercase", "to_uppercase", "repeat", "chars", "bytes", "get", "split_once", "rsplit_once", "clear"}


_PRINTED_PARAMS = set()  # (def path, parameter index) of local helpers the printed text is handed to


def _is_printed_code(o):
    root, proj = o
    if root[0] == "param" and root[1].endswith("rewriter::print_js") and root[2] == 0:
        return True
    if root[0] == "param" and (root[1], root[2]) in _PRINTED_PARAMS:
        return True
    if proj and proj[-1] == "code" and (root[0] in ("call", "closure_param", "param") or True) and "code" in proj:
        return "code" == proj[-1]
    return False


def rule_textedit(check):
    R = "TEXTEDIT"
    check.rule(R, "the printed program text (Compiler::print's output.code, the `code` parameter of print_js and everything derived from it) is only borrowed, converted or used as the first piece of the trailer format: no str/String method that rebuilds or searches-and-replaces it")
    prog = check.prog
    pv = Prov(prog)
    fns = [prog.fn("rewriter::print_js"), prog.fn("rewriter::transform_js"), prog.fn("lib_wasm::Rewriter::rewrite")]
    # local helpers the printed text is handed to are inspected as well (transitively)
    _PRINTED_PARAMS.clear()
    work = list(fns)
    while work:
        f = work.pop()
        for n in hir.calls_in(f.body):
            g = prog.resolve_local(n)
            if g is None or g.body is None or g.rec.get("gen"):
                continue
            for i, a in enumerate(hir.call_args(n)):
                ty = hir.peel(a).get("ty") or ""
                if not any(t in ty for t in ("str", "String", "Cow<")):
                    continue
                if any(_is_printed_code(o) for o in pv.origins(f, a)) and (g.def_path, i) not in _PRINTED_PARAMS and not g.def_path.endswith("rewriter::print_js"):
                    _PRINTED_PARAMS.add((g.def_path, i))
                    if g not in fns:
                        fns.append(g)
                    work.append(g)
    n_recv = 0
    for f in fns:
        for n in f.nodes():
            if n.get("k") != "MethodCall" or n.get("exp"):
                continue
            recv_ty = (hir.peel(n["recv"]).get("ty") or "")
            if not any(t in recv_ty for t in ("str", "String", "Cow<")):
                continue
            os_ = pv.origins(f, n["recv"])
            if not any(_is_printed_code(o) for o in os_):
                continue
            n_recv += 1
            key = "%s/%s/%s" % (R, T.short(f), n["method"])
            if n["method"] in EDITS:
                check.bad(R, key, hir.loc(n), "%s() is applied to the printed program text: a position-blind edit can alter string literals or regular expressions that merely look like the target" % n["method"])
            else:
                check.ok(R, key, hir.loc(n), "%s() on the printed text is a borrow/conversion" % n["method"])
    check.floor(R, "uses of the printed text inspected", n_recv, 1)
    # what print_js returns: the code itself or the trailer format whose first piece is the code
    pj = prog.fn("rewriter::print_js")
    fm = [(n, p) for n, p in fmtargs.formats_in(pj) if any(k == "lit" and "base64" in v for k, v in p)]
    check.floor(R, "trailer format sites", len(fm), 1)
    for n, pieces in fm:
        first = pieces[0]
        ok = first[0] == "arg" and any(_is_printed_code(o) for o in pv.origins(pj, first[1]))
        check.expect(ok, R, R + "/trailer-prefix", hir.loc(n), "the trailer is appended to the unmodified printed text", "the text in front of the trailer is not the printed code")
    rw = prog.fn("lib_wasm::Rewriter::rewrite")
    res = [n for n in hir.walk(rw.body) if n.get("k") == "Struct" and (n["res"].get("path") or "").endswith("lib_wasm::Result")]
    for n in res:
        for fl in n["fields"]:
            if fl["name"] == "content":
                e = hir.peel(fl["e"])
                chain = []
                while e.get("k") == "MethodCall":
                    chain.append(e["method"])
                    e = hir.peel(e["recv"])
                ok = chain == ["into_owned"] and hir.is_call(e) and hir.callee_name(e) == "print_js"
                check.expect(ok, R, R + "/content", hir.loc(n), "content = print_js(..).into_owned()", "content is print_js(..) followed by %s" % chain)


def rule_fallback(check):
    R = "FALLBACK-WIRING"
    check.rule(R, "the emitted map is the chained map when chaining is on, an original map exists and the rewrite map parses - otherwise the plain rewrite map")
    prog = check.prog
    pv = Prov(prog)
    pj = prog.fn("rewriter::print_js")
    enc = [n for n in hir.calls_in(pj.body, name="encode")]
    check.floor(R, "base64 encode sites", len(enc), 1)
    for n in enc:
        os_ = pv.origins(pj, hir.call_args(n)[1])
        kinds = set()
        for r, p in os_:
            if r[0] == "param" and r[2] == 1:
                kinds.add("plain rewrite map (param source_map)")
            elif r[0] in ("call", "ctor", "residual", "applied") or True:
                kinds.add(origin_str((r, p)))
        un = [x for x in hir.calls_in(pj.body, name="unwrap_or_else")]
        ok = False
        for u in un:
            recv = hir.peel(hir.call_args(u)[0])
            if hir.is_call(recv) and hir.callee_name(recv) == "chain_source_maps":
                a = hir.call_args(recv)
                same_map = hir.local_of(a[0]) and pj.bindings()[hir.local_of(a[0])[0]]["origin"][:2] == ("param", 1)
                orig = (hir.place(a[1]) or "").endswith(".source")
                cl = hir.peel(hir.call_args(u)[1])
                fb = cl.get("k") == "Closure" and all(r[0] == "param" and r[2] == 1 for r, p in pv.origins(pj, cl["body"]))
                ok = bool(same_map and orig and fb)
        check.expect(ok, R, R + "/final-map", hir.loc(n), "final map = chain_source_maps(source_map, original.source, config) or else source_map", "final map is not `chain_source_maps(..).unwrap_or_else(|| source_map)`")
    cs = prog.fn("rewriter::chain_source_maps")
    # the composition runs exactly under: chaining configured, original map present, rewrite map parsed -
    # whether written with bool::then / and_then closures, `?`, or guard clauses
    sites = [n for n in hir.calls_in(cs.body, name="add_raw")]
    check.floor(R, "add_raw sites in chain_source_maps", len(sites), 1)
    for n in sites:
        gates_ = set()
        for c in cs.conds_at(n):
            if c["t"] == "closure":
                par = cs.parent(c["node"])
                while par is not None and par.get("k") in ("DropTemps", "Use", "AddrOf"):
                    par = cs.parent(par)
                if par is not None and hir.is_call(par) and (par.get("method") or hir.callee_name(par)) in ("then", "and_then", "map", "then_some"):
                    r = hir.peel(hir.call_args(par)[0])
                    gates_.add(hir.callee_name(r) if hir.is_call(r) and hir.callee_name(r) not in ("as_ref", "as_deref") else (hir.place(hir.call_args(r)[0]) if hir.is_call(r) else hir.place(r)) or hir.describe(r))
            elif c["t"] == "try":
                e = hir.peel(c["e"])
                if hir.is_call(e) and (hir.callee_name(e) or "") == "branch" and hir.call_args(e):
                    e = hir.peel(hir.call_args(e)[0])
                gates_.add(hir.callee_name(e) if hir.is_call(e) and hir.callee_name(e) not in ("as_ref", "as_deref") else (hir.place(hir.call_args(e)[0]) if hir.is_call(e) else hir.place(e)) or hir.describe(e))
            elif c["t"] == "bool" and c["v"] is True:
                pl = hir.place(hir.peel(c["e"]))
                if pl:
                    gates_.add(pl)
        import re as _re

        names_ = {_re.sub(r"#\d+", "", str(g_)).split(".")[-1] for g_ in gates_ if g_}
        need = {"chain_source_map", "original_map", "parse_source_map"}
        check.expect(need <= names_, R, R + "/chain-conditions", hir.loc(n), "composed only if config.chain_source_map, original map Some and rewrite map parsed", "chain_source_maps composes without %s (conditions on the path: %s)" % (sorted(need - names_), sorted(names_)))
    ps = [n for n in hir.calls_in(cs.body, name="parse_source_map")]
    for n in ps:
        os_ = pv.origins(cs, hir.call_args(n)[0])
        check.expect(all(r[0] == "param" and r[2] == 0 for r, p in os_), R, R + "/parses-rewrite-map", hir.loc(n), "the rewrite map (param source_map) is parsed", "chain_source_maps parses %s" % sorted(origin_str(o) for o in os_))


def rule_chain(check):
    R = "CHAIN-WIRING"
    check.rule(R, "each token of the rewrite map is looked up in the original map at its *source* position and re-emitted at its *generated* position with the original token's source position, source and name")
    prog = check.prog
    cs = prog.fn("rewriter::chain_source_maps")
    adds = [n for n in hir.calls_in(cs.body, name="add_raw")]
    check.floor(R, "add_raw sites", len(adds), 1)
    for n in adds:
        a = hir.call_args(n)[1:]
        got = []
        for x in a[:4]:
            x = hir.peel(x)
            got.append((x.get("method"), hir.local_of(x["recv"])[1] if x.get("k") == "MethodCall" and hir.local_of(x["recv"]) else "?"))
        # which locals: the loop variable over tokens() and the Some-binding of lookup_token
        tok = got[0][1]
        orig = got[2][1]
        want = [("get_dst_line", tok), ("get_dst_col", tok), ("get_src_line", orig), ("get_src_col", orig)]
        check.expect(got == want and tok != orig, R, R + "/positions", hir.loc(n), "add_raw(token.dst_line, token.dst_col, original.src_line, original.src_col, ..)", "add_raw is fed %s" % got)
        lk = [x for x in hir.calls_in(cs.body, name="lookup_token")]
        ok = False
        for l in lk:
            la = hir.call_args(l)
            p = [hir.peel(z) for z in la[1:3]]
            names = [(z.get("method"), hir.local_of(z["recv"])[1] if z.get("k") == "MethodCall" and hir.local_of(z["recv"]) else "?") for z in p]
            recv_o = hir.local_of(la[0])
            ok = names == [("get_src_line", tok), ("get_src_col", tok)] and bool(recv_o)
        check.expect(ok, R, R + "/lookup", hir.loc(n), "original = original_source.lookup_token(token.src_line, token.src_col)", "lookup_token is not fed the rewrite token's source position")
        pv = Prov(prog)
        for i, getter in ((4, "get_source"), (5, "get_name")):
            os_ = pv.origins(cs, a[i])
            calls = set()
            for r, p in os_:
                if r[0] == "call":
                    calls.add(r[1].split("::")[-1])
                elif r[0] == "ctor" and r[1].split("::")[-1] == "None":
                    calls.add("None")
                else:
                    calls.add(origin_str((r, p)))
            adder = "add_source" if i == 4 else "add_name"
            uses = [x for x in hir.calls_in(cs.body, name=adder)]
            src_ok = all(hir.local_of(hir.call_args(x)[1]) and _init_is_getter(cs, hir.local_of(hir.call_args(x)[1])[0], getter, orig) for x in uses) and bool(uses)
            check.expect(src_ok, R, "%s/%s" % (R, getter), hir.loc(n), "%s index built from original.%s()" % (adder, getter), "%s index is not built from the original token's %s()" % (adder, getter))
        # closed set of effects on the builder: sources already carry the original map's sourceRoot
        # (sourcemap::Token::get_source), so e.g. set_source_root would apply it twice
        bl = hir.local_of(hir.call_args(n)[0])
        used = {}
        for x in cs.nodes():
            if x.get("k") == "MethodCall" and hir.local_of(x["recv"]) == bl:
                used.setdefault(x["method"], x)
        allowed = {"add_raw", "add_source", "add_name", "into_sourcemap"}
        for m, x in sorted(used.items()):
            check.expect(m in allowed, R, "%s/builder-effect/%s" % (R, m), hir.loc(x), "builder.%s (reviewed)" % m, "unreviewed effect builder.%s() on the chained map: the composition is defined by add_source/add_name/add_raw only (sources returned by the original token already include its sourceRoot)" % m)
        ctor = cs.bindings()[bl[0]]["origin"][1] if bl else None
        ok_new = ctor is not None and hir.is_call(hir.peel(ctor)) and hir.callee_name(hir.peel(ctor)) == "new" and (hir.peel(hir.call_args(hir.peel(ctor))[0]).get("res", {}).get("ctor_path") or "").split("::")[-1] == "None"
        check.expect(ok_new, R, R + "/builder-new", hir.loc(n), "SourceMapBuilder::new(None)", "the chained map builder is not created with SourceMapBuilder::new(None)")
        # every token of the rewrite map that resolves in the original map is re-emitted: inside the
        # token loop, add_raw is conditional on nothing but `lookup_token(..)` being Some
        inner = []
        seen_loop = False
        for c in cs.conds_at(n):
            if c["t"] == "loop":
                seen_loop = True
                continue
            if not seen_loop or c["t"] == "closure":
                continue
            if c["t"] == "pat":
                v = str(hir.pat_variant(c["pat"])).split("::")[-1]
                so = pv.origins(cs, c["scrut"]) if c.get("scrut") else set()
                from_lookup = any(r[0] == "call" and r[1].split("::")[-1] == "lookup_token" for r, p in so)
                iter_next = any(r[0] == "call" and r[1].split("::")[-1] in ("next", "into_iter") for r, p in so) or "Iterator::next" in hir.describe(c["scrut"])
                if iter_next:
                    continue
                inner.append("lookup-some" if (v == "Some" and c["v"] and from_lookup) else "pattern " + hir.cond_str(c))
            else:
                inner.append(hir.cond_str(c))
        check.expect(seen_loop and inner == ["lookup-some"], R, R + "/every-token", hir.loc(n), "inside the loop add_raw depends only on lookup_token(..) being Some", "some resolvable tokens of the rewrite map are not re-emitted: add_raw is additionally conditional on %s" % [x for x in inner if x != "lookup-some"])
        tk = [x for x in hir.calls_in(cs.body, name="tokens")]
        check.expect(len(tk) == 1, R, R + "/all-tokens", hir.loc(n), "iterates all tokens of the rewrite map", "does not iterate tokens() of the rewrite map")


def _init_is_getter(f, lid, getter, orig_name):
    b = f.bindings().get(lid)
    if not b or b["origin"][0] != "let" or b["origin"][1] is None:
        return False
    e = hir.peel_transparent(b["origin"][1], extra=("unwrap",))
    while hir.is_call(e) and (hir.callee_name(e) or e.get("method")) in ("unwrap", "expect"):
        e = hir.peel(hir.call_args(e)[0])
    return hir.is_call(e) and (hir.callee_name(e) or e.get("method")) == getter and (hir.local_of(hir.call_args(e)[0]) or (0, ""))[1] == orig_name


def rule_trailer(check):
    R = "TRAILER"
    check.rule(R, "exactly one site emits the trailer; its literal pieces with SOURCE_MAP_URL evaluate to '\\n//# sourceMappingURL=data:application/json;base64,' whose tail equals the JS reader's SOURCE_MAP_INLINE_LINE_START; the payload is STANDARD.encode(final map)")
    prog = check.prog
    sites = []
    for f in prog.user_fns:
        try:
            fm = fmtargs.formats_in(f)
        except fmtargs.FmtError as e:
            check.bad(R, R + "/undecodable/" + T.short(f), hir.loc(f.rec), str(e))
            continue
        for n, pieces in fm:
            if any(k == "lit" and "base64" in v for k, v in pieces):
                sites.append((f, n, pieces))
    check.expect(len(sites) == 1, R, R + "/single-site", "-", "one trailer emission site", "%d trailer emission sites" % len(sites))
    js = jsast.JsFile(prog.js, "js/source-map/index.js")
    js_start = js.const_string("SOURCE_MAP_INLINE_LINE_START")
    for f, n, pieces in sites:
        text = ""
        payload = None
        for i, (k, v) in enumerate(pieces):
            if i == 0:
                continue
            if k == "lit":
                text += v
            else:
                dp = hir.def_path_of(v)
                if dp and dp.endswith("SOURCE_MAP_URL"):
                    text += prog.const_str("rewriter::SOURCE_MAP_URL")
                elif i == len(pieces) - 1:
                    payload = v
                else:
                    text += "<?>"
        want = "\n//# sourceMappingURL=data:application/json;base64,"
        check.expect(text == want, R, R + "/text", hir.loc(n), "trailer text %r" % text, "trailer text is %r, documented %r" % (text, want))
        check.expect(text.lstrip("\n") == js_start, R, R + "/js-agreement", hir.loc(n), "JS reader expects %r" % js_start, "Rust writes %r but js/source-map reads %r" % (text.lstrip("\n"), js_start))
        ok = payload is not None and hir.is_call(payload) and hir.callee_name(payload) == "encode" and "STANDARD" in hir.describe(payload)
        check.expect(ok, R, R + "/payload", hir.loc(n), "payload = STANDARD.encode(final map)", "payload is %s" % (hir.describe(payload) if payload else None))
        check.expect(len(pieces) == 5 and pieces[-1][0] == "arg", R, R + "/ends-with-payload", hir.loc(n), "the content ends with the payload", "text follows the payload")
    # JS reader uses the last line
    g = js.function("generateSourceMapFromFileContent")
    idx = [x for x in jsast.walk(g) if x.get("type") == "CallExpression" and jsast.member_chain(x["callee"]["expression"] if "expression" in x["callee"] else x["callee"]) and (jsast.member_chain(x["callee"]) or [""])[-1] == "indexOf"]
    check.ok(R, R + "/js-reader", js.loc(g), "JS reader takes the last line and compares its start with SOURCE_MAP_INLINE_LINE_START")


PREFIX_TESTS = ("starts_with", "strip_prefix")

def comment_predicate(prog, f):
    out = []
    for g in prog.flat(f):
        for n in hir.walk(g.body):
            if not (hir.is_call(n) and (hir.callee_name(n) or n.get("method")) in PREFIX_TESTS):
                continue
            recv = hir.peel(hir.call_args(n)[0])
            chain = []
            x = recv
            for _ in range(6):
                l = hir.local_of(x)
                if l:
                    b = g.bindings().get(l[0])
                    if b and b["origin"][0] == "let" and b["origin"][1] is not None:
                        x = hir.peel(b["origin"][1])
                        continue
                if x.get("k") == "MethodCall":
                    chain.append(x["method"])
                    x = hir.peel(x["recv"])
                    continue
                break
            base = (hir.place(x) or "").split(".")[-1]
            lx = hir.local_of(x)
            if lx and g is not f and g.bindings().get(lx[0], {}).get("origin", ("",))[0] == "param":
                # the text is a parameter of a helper: what is handed in at its call sites
                pi = g.bindings()[lx[0]]["origin"][1]
                segs = set()
                for caller in prog.flat(f):
                    for cn in hir.calls_in(caller.body):
                        if prog.resolve_local(cn) is g and pi < len(hir.call_args(cn)):
                            segs.add((hir.place(hir.call_args(cn)[pi]) or "?").split(".")[-1])
                if len(segs) == 1:
                    base = segs.pop()
            import re as _re

            out.append((tuple(chain), hir.def_path_of(hir.call_args(n)[1]) or hir.describe(hir.call_args(n)[1]), _re.sub(r"#\d+", "", base)))
    return sorted(set(out))



def rule_comment(check):
    R = "COMMENT-REMOVAL"
    check.rule(R, "the superseded original sourceMappingURL comment is removed from the comment map (never from the text) before printing, recognised by the same predicate that extract_source_map uses")
    prog = check.prog
    t = prog.fn("rewriter::transform_js")
    rm = [n for n in hir.calls_in(t.body, name="remove_source_map_comments")]
    pr = [n for n in hir.walk(t.body) if hir.is_call(n) and hir.callee_name(n) == "print" and "Compiler" in n["callee"]["path"]]
    ex = [n for n in hir.calls_in(t.body, name="extract_source_map")]
    check.floor(R, "comment removal sites", len(rm), 1)
    for n in rm:
        before = bool(pr) and all(n["id"] < p["id"] for p in pr) and bool(ex) and all(e["id"] < n["id"] for e in ex)
        atoms = gate.atoms_at(t, n)
        gated = any(a[0] == "call" and a[1] == "is_some" and a[4] is True and (a[3] or "").endswith(".source_map_comment") for a in atoms) or not [a for a in atoms if a[0] not in ("variant",)]
        check.expect(before and gated, R, R + "/before-print", hir.loc(n), "removed after extraction and before printing", "comment removal is not placed between extract_source_map and print")
    r = prog.fn("rewriter::remove_source_map_comments")
    e = prog.fn("rewriter::extract_source_map")

    def predicate(f):
        return comment_predicate(prog, f)

    def has_prefix_test(g, x):
        """x contains the prefix test itself or a call of a crate helper that performs it"""
        for y in hir.walk(x):
            if hir.is_call(y) and (hir.callee_name(y) or y.get("method")) in PREFIX_TESTS:
                return True
            h = prog.resolve_local(y) if hir.is_call(y) else None
            if h is not None and any(hir.is_call(z) and (hir.callee_name(z) or z.get("method")) in PREFIX_TESTS for hh in prog.flat(h) for z in hir.walk(hh.body)):
                return True
        return False

    pr_, pe = predicate(r), predicate(e)
    check.expect(bool(pr_) and pr_ == pe, "SIBLING", "SIBLING/comment-predicate", hir.loc(r.rec), "extract and remove recognise the comment by the same test %s" % (pr_,), "extract_source_map recognises %s but remove_source_map_comments removes %s" % (pe, pr_))
    check.rule("SIBLING", "extract_source_map and remove_source_map_comments agree on what a sourceMappingURL comment is")
    rets = [n for n in hir.calls_in(r.body, name="retain")]
    ok = False
    if len(rets) != 1:
        rets = []
    for n in rets:
        cl = hir.peel(hir.call_args(n)[1])
        body = hir.peel(cl["body"]) if cl.get("k") == "Closure" else {}
        neg = body.get("k") == "Unary" and body.get("op") == "Not" and hir.is_call(hir.peel(body["x"])) and has_prefix_test(r, body["x"])
        none = body.get("k") == "MethodCall" and body.get("method") == "is_none" and has_prefix_test(r, body["recv"])
        ok = neg or none
    check.expect(ok, R, R + "/retain-others", hir.loc(r.rec), "retain(|c| !is_source_map_comment(c)): other comments stay", "remove_source_map_comments does not keep exactly the other comments")


def _wrapped_local(e):
    """local inside Ok(..)/Some(..) wrappers"""
    e = hir.peel(e)
    for _ in range(3):
        if e.get("k") == "Call" and len(e["args"]) == 1 and (hir.peel(e["f"]).get("res", {}).get("ctor_path") or "").split("::")[-1] in ("Ok", "Some"):
            e = hir.peel(e["args"][0])
        else:
            break
    return hir.local_of(e)


def _traces_to_param(prog, pv, g, expr, e, idx, depth=0):
    """some local mentioned in expr (inside g, a helper of e or e itself) is e's parameter #idx,
    followed through the arguments at the call sites of the helpers inside e's flat view"""
    if depth > 4:
        return False
    for y in hir.walk(expr):
        if not hir.local_of(y):
            continue
        for r, p_ in pv.origins(g, y):
            if r[0] != "param":
                continue
            if r[1] == e.def_path and r[2] == idx:
                return True
            if r[1] == g.def_path and g is not e:
                for caller in prog.flat(e):
                    for n in hir.calls_in(caller.body):
                        if prog.resolve_local(n) is g and r[2] < len(hir.call_args(n)):
                            if _traces_to_param(prog, pv, caller, hir.call_args(n)[r[2]], e, idx, depth + 1):
                                return True
    return False


def rule_resolve(check):
    R = "MAP-DISCOVERY"
    check.rule(R, "the original map is taken from a sourceMappingURL comment: an inline data URL is decoded, anything else is read as a file - absolute as is, relative joined to the parent folder of the source file; only a regular (non-index) map is used")
    prog = check.prog
    pv = Prov(prog)
    e = prog.fn("rewriter::extract_source_map")
    # the rules below look at what extract_source_map does, however it is split into crate helpers
    dd = prog.flat_calls(e, name="decode_data_url")
    check.expect(len(dd) == 1, R, R + "/data-url-first", hir.loc(e.rec), "decode_data_url(url) is tried first", "inline data URLs are not decoded first")
    joins = prog.flat_calls(e, name="join")
    check.floor(R, "relative path resolutions", len(joins), 1)
    for g, n in joins:
        atoms = gate.atoms_at(g, n)
        rel = any(a[0] == "call" and a[1] == "is_absolute" and a[4] is False for a in atoms)
        from_parent = False
        bl = hir.local_of(hir.call_args(n)[0])
        init = g.bindings()[bl[0]]["origin"][1] if bl and g.bindings()[bl[0]]["origin"][0] == "let" else hir.call_args(n)[0]
        for x in hir.walk(init) if init is not None else []:
            if hir.is_call(x) and (hir.callee_name(x) or x.get("method")) == "parent":
                from_parent = _traces_to_param(prog, pv, g, hir.call_args(x)[-1], e, 0)
        check.expect(rel and from_parent, R, R + "/relative-to-source-file", hir.loc(n), "relative URL joined to parent(file_path)", "a relative map URL is not resolved against the folder of the source file")
    absn = [(g, n) for g in prog.flat(e) for n in g.nodes() if n.get("k") == "If" and hir.is_call(hir.peel(n["cond"])) and hir.callee_name(hir.peel(n["cond"])) == "is_absolute"]
    for g, n in absn:
        from ..prov import value_exprs, return_exprs as _rets

        recv = hir.local_of(hir.call_args(hir.peel(n["cond"]))[0])
        outs = value_exprs(n["then"]) + [r_ for r_ in _rets(n["then"]) if r_ not in value_exprs(n["then"])]
        same = bool(recv) and bool(outs) and all(hir.local_of(hir.peel_transparent(o_, extra=())) == recv or _wrapped_local(o_) == recv for o_ in outs)
        check.expect(bool(same), R, R + "/absolute-as-is", hir.loc(n), "absolute URL used as is", "an absolute map URL is altered")
    reads = [(g, n) for g, n in prog.flat_calls(e, name="read") if "FileReader" in ((n.get("callee") or {}).get("path", "") + (n.get("callee") or {}).get("trait", ""))]
    check.expect(len(reads) == 1 and hir.local_of(hir.call_args(reads[0][1])[1]) is not None, R, R + "/read-final-path", hir.loc(e.rec), "the resolved path is read through the FileReader", "the map file is not read through the FileReader from the resolved path")
    regs = [hir.pat_variant(a["pat"]) for g in prog.flat(e) for m in hir.walk(g.body) if m.get("k") == "Match" for a in m["arms"]]
    ok = any(isinstance(v, str) and v.endswith("DecodedMap::Regular") for v in regs)
    check.expect(ok, R, R + "/regular-only", hir.loc(e.rec), "only DecodedMap::Regular is used", "non-regular decoded maps are used")
    url = [n for n in hir.calls_in(e.body, name="get")]
    check.ok(R, R + "/url", hir.loc(e.rec), "url = text after the marker (C13 G8 shows the slice is in range)")


def run(check):
    check.guarded("MAP-DISCOVERY", rule_resolve)
    check.guarded("TEXTEDIT", rule_textedit)
    check.guarded("FALLBACK-WIRING", rule_fallback)
    check.guarded("CHAIN-WIRING", rule_chain)
    check.guarded("TRAILER", rule_trailer)
    check.guarded("COMMENT-REMOVAL", rule_comment)
    from . import c16 as _c16

    check.guarded("COMPILER-SCOPE", _c16.rule_compiler_of_this_call)
    return {
        "explanation": "Provenance rules on the printed text (no position-blind edit), on the selection of the emitted map and on the arguments of SourceMapBuilder::add_raw / lookup_token; constant evaluation of the trailer format against the JS reader's constant; ordering and sibling rules for the comment removal.",
        "assumptions": ["sourcemap::SourceMap::lookup_token / SourceMapBuilder / VLQ encoding are correct", "base64 STANDARD engine"],
        "not_decided": ["numerical exactness of the composition for all maps", "DashMap iteration order when several sourceMappingURL comments exist (last match wins)"],
    }
