"""GATE: control dependence read off the structural path conditions of typed HIR."""
from . import hir


def _resolve_bool_local(fn, e):
    """An immutable `let b = <expr>` used as a condition stands for its initialiser."""
    seen = 0
    while seen < 4:
        e = hir.peel(e)
        l = hir.local_of(e)
        if l is None:
            return e
        b = fn.bindings().get(l[0])
        if not b or b["mut"] or b["origin"][0] != "let" or b["origin"][1] is None or b["origin"][2]:
            return e
        if fn.assignments_to(l[0]):
            return e
        e = b["origin"][1]
        seen += 1
    return e


def operand(fn, e):
    """place string, const path, ctor path or literal for one side of a comparison"""
    e = hir.peel_transparent(e)
    p = hir.place(e)
    if p is not None:
        return p
    if hir.is_call(e) and (hir.callee_name(e) or e.get("method")) == "len" and len(hir.call_args(e)) == 1:
        inner = hir.place(hir.call_args(e)[0])
        if inner is not None:
            return "len(%s)" % inner
    if e.get("k") == "Path":
        r = e["res"]
        return r.get("ctor_path") or r.get("path")
    if e.get("k") == "Lit":
        return ("lit", e["lit"]["v"])
    if e.get("k") == "Call":
        f = hir.peel(e["f"])
        if f.get("k") == "Path" and f["res"].get("ctor_path"):
            return f["res"]["ctor_path"]
    return None


def atom(fn, c):
    t = c["t"]
    if t == "bool":
        e = _resolve_bool_local(fn, c["e"])
        v = c["v"]
        while e.get("k") == "Unary" and e["op"] == "Not":
            e = _resolve_bool_local(fn, e["x"])
            v = not v
        if e.get("k") == "Binary" and e["op"] in ("Eq", "Ne"):
            a, b = operand(fn, e["l"]), operand(fn, e["r"])
            return ("eq", a, b, (e["op"] == "Eq") == v, e)
        if e.get("k") == "Binary" and e["op"] in ("Lt", "Le", "Gt", "Ge"):
            return ("cmp", e["op"], operand(fn, e["l"]), operand(fn, e["r"]), v, e)
        if hir.is_call(e):
            args = hir.call_args(e)
            first = hir.place(args[0]) if args else None
            return ("call", hir.callee_name(e) or e.get("method"), hir.callee_path(e), first, v, e)
        if e.get("k") == "Binary" and e["op"] in ("And", "Or"):
            return ("compound", e["op"], v, e)
        p = hir.place(e)
        if p is not None:
            return ("place", p, v, e)
        if e.get("k") == "Lit":
            return ("const", e["lit"]["v"], v, e)
        return ("other", hir.describe(e), v, e)
    if t == "pat":
        return ("variant", hir.place(c["scrut"]) if c.get("scrut") else None, hir.pat_variant(c["pat"]), c["v"], c)
    if t == "arm_not":
        return ("arm_not", hir.place(c["scrut"]), hir.pat_variant(c["pat"]), c)
    if t == "try":
        e = hir.peel(c["e"])
        if hir.is_call(e) and (hir.callee_name(e) or "") == "branch" and hir.call_args(e):
            e = hir.call_args(e)[0]
        return ("try", hir.place(e), True, c)
    return (t,)


def _strip_ids(s):
    import re

    return re.sub(r"#\d+", "", s)


def atoms_at(fn, node):
    return [atom(fn, c) for c in fn.conds_at(node)]


def atoms_expanded(prog, fn, node):
    """atoms_at with calls of crate predicates (`fn p(..) -> bool { a && b }`) that hold on the path
    replaced by the atoms of their conjuncts (a negated predicate is only opened when it is a single test)"""
    from .prov import return_exprs

    def conjuncts(e):
        e = hir.peel(e)
        if e.get("k") == "Binary" and e["op"] == "And":
            return conjuncts(e["l"]) + conjuncts(e["r"])
        return [e]

    out = []
    for a in atoms_at(fn, node):
        if a[0] == "call":
            h = prog.resolve_local(a[5]) if isinstance(a[5], dict) else None
            if h is not None and h.body is not None and h.rec.get("ret") == "bool" and not h.rec.get("gen"):
                rs = return_exprs(h.body)
                if len(rs) == 1:
                    cs = conjuncts(rs[0])
                    if a[4] is True or len(cs) == 1:
                        out.extend(atom(h, {"t": "bool", "e": c, "v": a[4]}) for c in cs)
                        continue
        out.append(a)
    return out


def has_call_gate(atoms, name, value=True, first_endswith=None):
    for a in atoms:
        if a[0] == "call" and a[1] == name and a[4] == value:
            if first_endswith is None or (a[3] or "").endswith(first_endswith):
                return True
    return False


def has_eq_gate(atoms, side_endswith, const_endswith, value=True, _cross=True):
    """`<..side> == <..const>` holds (value=True) / does not hold on the path; a match arm on the same place
    with the same (single) variant says the same thing"""
    for a in atoms:
        if a[0] == "eq" and a[3] == value:
            sides = [a[1], a[2]]
            s = [_strip_ids(x) for x in sides if isinstance(x, str)]
            if any(x.endswith(side_endswith) for x in s) and any(x.endswith(const_endswith) for x in s):
                return True
    if _cross:
        for a in atoms:
            if a[0] == "variant" and a[3] == value and isinstance(a[2], str) and a[2].endswith(const_endswith) and _strip_ids(a[1] or "").endswith(side_endswith):
                return True
    return False


def has_variant_gate(atoms, variant_endswith, place_endswith=None, value=True, _cross=True):
    for a in atoms:
        if a[0] == "variant" and a[3] == value:
            v = a[2]
            vs = [v] if isinstance(v, str) else list(v or [])
            if any(isinstance(x, str) and x.endswith(variant_endswith) for x in vs):
                if place_endswith is None or (a[1] or "").endswith(place_endswith):
                    return True
    if _cross:
        # `place == Enum::Variant` written as a comparison
        for a in atoms:
            if a[0] == "eq" and a[3] == value:
                s = [_strip_ids(x) for x in (a[1], a[2]) if isinstance(x, str)]
                if any(x.endswith(variant_endswith) for x in s) and (place_endswith is None or any(x.endswith(place_endswith) for x in s)):
                    return True
    return False


def sites_all_gated(prog, fn, pred, depth=0, seen=None):
    """True if every call site of `fn` inside the crate satisfies pred(caller_fn, call_node) or is
    itself (recursively) only reachable through gated sites.  Returns (bool, list of ungated sites)."""
    seen = set() if seen is None else seen
    if fn.def_path in seen or depth > 5:
        return True, []
    seen.add(fn.def_path)
    sites = [(f, n) for f, n in prog.sites_calling(fn)]
    if not sites:
        return False, [(fn, None)]
    bad = []
    for f, n in sites:
        if pred(f, n):
            continue
        ok, sub = sites_all_gated(prog, f, pred, depth + 1, seen)
        if not ok:
            bad += sub if sub and sub != [(f, None)] else [(f, n)]
    return (not bad), bad


def modified_gate(prog, fn, atoms):
    """(ok, extra): ok if the atoms contain `<..>.status == Status::Modified` directly or through a crate
    predicate whose whole body is that comparison; extra lists what a predicate requires besides"""
    if has_eq_gate(atoms, ".status", "Status::Modified") or has_variant_gate(atoms, "Status::Modified", ".status"):
        return True, []
    for a in atoms:
        if a[0] != "call" or a[4] is not True:
            continue
        h = prog.resolve_local(a[5]) if isinstance(a[5], dict) else None
        if h is None or h.body is None:
            continue
        from .prov import return_exprs

        rs = return_exprs(h.body)
        if len(rs) != 1:
            continue
        conj = []

        def split(e):
            e = hir.peel(e)
            if e.get("k") == "Binary" and e["op"] == "And":
                split(e["l"])
                split(e["r"])
            else:
                conj.append(e)

        split(rs[0])
        is_mod = []
        extra = []
        for c in conj:
            sides = [operand(h, c["l"]), operand(h, c["r"])] if c.get("k") == "Binary" and c["op"] == "Eq" else []
            ss = [_strip_ids(x) for x in sides if isinstance(x, str)]
            if any(x.endswith(".status") for x in ss) and any(x.endswith("Status::Modified") for x in ss):
                is_mod.append(c)
            else:
                extra.append(hir.describe(c)[:80])
        if is_mod:
            return True, ["%s() also requires %s" % (h.name, x) for x in extra]
    return False, []
