"""Program model, rule bookkeeping, evidence and verdict output."""
import json
import os
import time

from . import hir
from .facts import VERIF, REPO


class AnchorMissing(Exception):
    """A function / type / field the rule is anchored on was not found.

    absent=False (default): fail closed - the rule reports a violation.
    absent=True: the *named* inherent function / type / constant of the reviewed tree does not exist in
    this tree at all (renamed with another signature, merged, split, moved into another type).  No edit
    that still compiles can delete such an entity without also rewriting every use of it, so this is a
    restructuring, not a dropped check: the rule cannot say anything about the new shape and is reported
    as UNDECIDED instead of raising an alarm.  Overrides of trait methods (whose removal silently falls
    back to the default method) are never treated this way."""

    def __init__(self, msg, absent=False):
        super().__init__(msg)
        self.absent = absent


_REVIEWED = None


def _reviewed_table():
    global _REVIEWED
    if _REVIEWED is None:
        p = os.path.join(VERIF, "rules", "anchors.json")
        try:
            with open(p) as fh:
                _REVIEWED = json.load(fh)
        except OSError:
            _REVIEWED = {}
    return _REVIEWED


def _is_trait_override(suffix):
    """was the reviewed function of this name an override of a trait method?"""
    hits = []
    for d, t in _reviewed_table().items():
        gd = _generic_free(d)
        if d == suffix or d.endswith("::" + suffix) or gd.endswith("::" + suffix) or gd == suffix:
            hits.append(t)
    if not hits:
        return " as " in suffix
    for t in hits:
        try:
            sig = json.loads(t["sig"])
        except Exception:
            return True
        if sig.get("trait") and not d_is_trait_decl(sig):
            return True
    return False


def d_is_trait_decl(sig):
    # provided methods declared inside the trait itself carry the trait in "trait" too; they have no
    # self type of their own
    return not sig.get("self")


class Program:
    def __init__(self, facts):
        from . import anchors

        self.renamed = anchors.normalise(facts) if not facts.get("_normalised") else facts.get("_renamed", [])
        facts["_normalised"] = True
        facts["_renamed"] = self.renamed
        self.facts = facts
        self.repo = facts["_meta"]["repo"]
        if not facts.get("_desugared"):
            _desugar_fn_values(facts)
            _normalise(facts)
            _inline_new_ctor_fns(facts)
            if facts.get("_view_helpers_inlined"):
                # the second reading of the program (see check.py): every helper the reviewed tree does not
                # have is read at its call sites
                _inline_new_fns(facts)
                _normalise(facts)  # (parameters bound to trivial arguments are read through like any other local)
            facts["_desugared"] = True
        self.fns = [hir.Fn(r, facts) for r in facts["fns"]]
        self.by_def = {f.def_path: f for f in self.fns}
        self.user_fns = [f for f in self.fns if not f.rec.get("gen") and f.body is not None]
        self.adts = facts["adts"]
        self.consts = {c["def"]: c for c in facts["consts"]}
        self.js = facts.get("js", {})
        self._callsites = None

    # ---- lookup -----------------------------------------------------------------------------
    def find_fns(self, suffix):
        out = []
        for f in self.fns:
            if f.body is None:
                continue
            d = f.def_path
            if d == suffix or d.endswith("::" + suffix) or _generic_free(d).endswith("::" + suffix) or _generic_free(d) == suffix:
                out.append(f)
        return out

    def fn(self, suffix):
        fs = self.find_fns(suffix)
        if len(fs) != 1:
            raise AnchorMissing("function %s (%d matches)" % (suffix, len(fs)), absent=(len(fs) == 0 and not _is_trait_override(suffix)))
        return fs[0]

    def fn_opt(self, suffix):
        fs = self.find_fns(suffix)
        return fs[0] if len(fs) == 1 else None

    def const_str(self, suffix):
        for d, c in self.consts.items():
            if d == suffix or d.endswith("::" + suffix):
                v = hir.lit_value(c["body"])
                if v is None:
                    raise AnchorMissing("const %s is not a literal" % suffix)
                return v
        raise AnchorMissing("const %s" % suffix, absent=True)

    def adt(self, suffix):
        hits = [a for p, a in self.adts.items() if p == suffix or p.endswith("::" + suffix)]
        if len(hits) != 1:
            raise AnchorMissing("type %s (%d matches)" % (suffix, len(hits)), absent=(len(hits) == 0))
        return hits[0]

    # ---- call graph --------------------------------------------------------------------------
    def call_sites(self):
        """list of (caller Fn, call node, callee record) for every resolved call in user fns
        (closures are part of their parent's HIR)."""
        if self._callsites is None:
            cs = []
            for f in self.fns:
                if f.body is None or f.rec.get("inlined_ctor"):
                    continue  # (a constructor function read at its call sites: its own body is not a site)
                for n in f.nodes():
                    c = n.get("callee")
                    if c and (hir.is_call(n) or n.get("k") in ("Binary", "Unary", "Index", "Path")):
                        cs.append((f, n, c))
            self._callsites = cs
        return self._callsites

    def sites_calling(self, target):
        """call sites whose (resolved or declared) callee is the local function `target` (Fn) or
        whose path ends with the given suffix string.  Path nodes (fn used as a value) included."""
        out = []
        for f, n, c in self.call_sites():
            paths = [c["path"]] + ([c["resolved"]] if c.get("resolved") else [])
            for p in paths:
                if isinstance(target, hir.Fn):
                    if _generic_free(p) == _generic_free(target.def_path):
                        out.append((f, n))
                        break
                else:
                    gp = _generic_free(p)
                    if gp == target or gp.endswith("::" + target):
                        out.append((f, n))
                        break
        # a Call node and its `f` Path child both carry the callee: keep the Call only
        seen_calls = set()
        res = []
        for f, n in out:
            if n.get("k") == "Path":
                par = f.parent(n)
                if par is not None and par.get("k") == "Call" and hir.peel(par["f"]) is n:
                    continue
            key = (f.def_path, n["id"])
            if key not in seen_calls:
                seen_calls.add(key)
                res.append((f, n))
        return res

    def local_callees(self, f):
        """Fn objects called from f (resolved), including trait default methods."""
        out = []
        for n in f.nodes():
            c = n.get("callee")
            if not c:
                continue
            for p in [c.get("resolved"), c["path"]]:
                if not p:
                    continue
                g = self.by_generic_free().get(_generic_free(p))
                if g is not None:
                    out.append((n, g))
                    break
        return out

    def by_generic_free(self):
        if not hasattr(self, "_bgf"):
            self._bgf = {}
            for f in self.fns:
                if f.body is not None:
                    self._bgf[_generic_free(f.def_path)] = f
        return self._bgf

    def flat(self, f, depth=3):
        """f together with the crate functions it calls (transitively, bounded): the view a rule
        needs when it looks for *what a function does* regardless of how it is split into helpers."""
        out, seen, work = [], set(), [(f, 0)]
        while work:
            g, d = work.pop(0)
            if g.def_path in seen or g.body is None:
                continue
            seen.add(g.def_path)
            out.append(g)
            if d >= depth:
                continue
            for n in g.nodes():
                if n.get("callee"):
                    h = self.resolve_local(n)
                    if h is not None and not h.rec.get("gen") and not h.rec.get("in_test") and h.def_path not in seen:
                        work.append((h, d + 1))
        return out

    def flat_calls(self, f, name=None, depth=3):
        """[(g, call node)] over flat(f)"""
        out = []
        for g in self.flat(f, depth):
            for n in hir.calls_in(g.body, name=name):
                out.append((g, n))
        return out

    def resolve_local(self, n):
        """Fn for a call node if the callee is a function of this crate."""
        c = n.get("callee")
        if not c:
            return None
        for p in [c.get("resolved"), c["path"]]:
            if p:
                g = self.by_generic_free().get(_generic_free(p))
                if g is not None:
                    return g
        return None

    def src(self, n, max_lines=8):
        return hir.src_text(self.repo, n["sp"], max_lines)


HOF_ARITY = {"map": 1, "and_then": 1, "map_or": 1, "map_or_else": None, "unwrap_or_else": 0, "or_else": 0, "then": 0, "filter": 1, "is_some_and": 1, "for_each": 1, "any": 1, "all": 1, "find": 1, "inspect": 1, "ok_or_else": 0, "map_err": 1}


def _desugar_fn_values(facts):
    """`x.map_or_else(f, g)` with *paths to crate functions* as arguments is rewritten into the
    equivalent closures `x.map_or_else(|| f(), |v| g(v))`, so that the analyses (which understand
    closures and calls) see what is applied to what.  Constructor paths are left alone."""
    local_defs = {r["def"] for r in facts["fns"] if "body" in r}
    counter = [50_000_000]

    def fresh():
        counter[0] += 1
        return counter[0]

    def arity_of(path_node, method, pos, nargs):
        d = (path_node.get("callee") or {}).get("resolved") or (path_node.get("res") or {}).get("path")
        for r in facts["fns"]:
            if r["def"] == d:
                return len(r.get("params", []))
        if method == "map_or_else":
            return 0 if pos == 0 else 1
        return HOF_ARITY.get(method)

    def visit(n):
        if isinstance(n, dict):
            # `cond.then_some(v)`  ==>  `cond.then(|| v)` - only when evaluating v early cannot be observed
            if n.get("k") == "MethodCall" and n.get("method") == "then_some" and len(n.get("args", [])) == 1:
                r1 = n["recv"]
                while isinstance(r1, dict) and r1.get("k") in ("DropTemps", "Use"):
                    r1 = r1["x"]
                def _inert(e, depth=0):
                    """evaluating e early cannot be told from evaluating it under the condition: no indexing,
                    no call other than a constructor / clone (then_some evaluates its operand whatever the
                    condition says - `(!v.is_empty()).then_some(&v[0])` panics on the empty list)"""
                    if isinstance(e, list):
                        return all(_inert(x, depth) for x in e)
                    if not isinstance(e, dict) or "k" not in e:
                        return all(_inert(x, depth) for x in e.values()) if isinstance(e, dict) else True
                    k_ = e["k"]
                    if k_ in ("Index", "Binary", "AssignOp", "Assign", "Closure", "If", "Match", "BlockExpr", "Loop"):
                        return False
                    if k_ == "Unary" and e.get("op") != "Not":
                        return False
                    if k_ == "Call":
                        f_ = e.get("f")
                        while isinstance(f_, dict) and f_.get("k") in ("DropTemps", "Use"):
                            f_ = f_["x"]
                        ctor = isinstance(f_, dict) and f_.get("k") == "Path" and (f_.get("res") or {}).get("ctor_path")
                        boxnew = (e.get("callee") or {}).get("name") == "new" and "boxed::Box" in ((e.get("callee") or {}).get("path") or "")
                        if not (ctor or boxnew):
                            return False
                        return all(_inert(a_, depth + 1) for a_ in e.get("args", []))
                    if k_ == "MethodCall":
                        if e.get("method") not in ("clone", "to_owned", "to_string", "as_ref", "as_str", "into", "as_deref") or e.get("args"):
                            return False
                        return _inert(e.get("recv"), depth + 1)
                    return all(_inert(v2, depth + 1) for k2, v2 in e.items() if k2 not in ("res", "callee", "pat"))

                if isinstance(r1, dict) and r1.get("ty") == "bool" and _inert(n["args"][0]):
                    v_ = n["args"][0]
                    n["method"] = "then"
                    n["args"] = [{"id": fresh(), "sp": n["sp"], "ty": "closure", "k": "Closure", "def": "synthetic", "params": [], "body": v_, "synthetic": True}]
            # `cond.then(|| body)`  ==>  `if cond { Some(body) } else { None }`
            if n.get("k") == "MethodCall" and n.get("method") == "then" and len(n.get("args", [])) == 1:
                rv = n["recv"]
                r0 = rv
                while isinstance(r0, dict) and r0.get("k") in ("DropTemps", "Use"):
                    r0 = r0["x"]
                cl = n["args"][0]
                while isinstance(cl, dict) and cl.get("k") in ("DropTemps", "Use"):
                    cl = cl["x"]
                if isinstance(r0, dict) and r0.get("ty") == "bool" and isinstance(cl, dict) and cl.get("k") == "Closure" and not cl.get("params"):
                    some = {"id": fresh(), "sp": n["sp"], "ty": n.get("ty"), "k": "Call", "synthetic": True, "f": {"id": fresh(), "sp": n["sp"], "ty": "?", "k": "Path", "res": {"res": "Def", "kind": "Ctor(Variant, Fn)", "path": "std::option::Option::Some", "krate": "core", "ctor_of": "Variant", "ctor_kind": "Fn", "ctor_path": "std::option::Option::Some"}, "qname": "Some"}, "args": [cl["body"]]}
                    none = {"id": fresh(), "sp": n["sp"], "ty": n.get("ty"), "k": "Path", "synthetic": True, "res": {"res": "Def", "kind": "Ctor(Variant, Const)", "path": "std::option::Option::None", "krate": "core", "ctor_of": "Variant", "ctor_kind": "Const", "ctor_path": "std::option::Option::None"}, "qname": "None"}
                    keep = {"id": n["id"], "sp": n["sp"], "ty": n.get("ty")}
                    n.clear()
                    n.update(keep)
                    n.update({"k": "If", "cond": rv, "then": some, "else": none, "synthetic": True})
            if n.get("k") == "MethodCall" and n.get("method") in HOF_ARITY:
                for i, a in enumerate(n.get("args", [])):
                    a0 = a
                    while isinstance(a0, dict) and a0.get("k") in ("DropTemps", "Use", "Cast", "Type", "AddrOf"):
                        a0 = a0["x"]
                    if isinstance(a0, dict) and a0.get("k") == "Path" and (a0.get("res") or {}).get("res") == "Def" and (a0["res"].get("kind") in ("Fn", "AssocFn")) and (a0["res"].get("path") in local_defs or (a0.get("callee") or {}).get("resolved") in local_defs):
                        if not a0.get("callee"):
                            a0["callee"] = {"path": a0["res"]["path"], "name": a0["res"]["path"].split("::")[-1], "krate": a0["res"].get("krate"), "kind": a0["res"].get("kind")}
                        ar = arity_of(a0, n["method"], i, len(n["args"]))
                        if ar is None or ar > 2:
                            continue
                        params, args = [], []
                        for j in range(ar):
                            lid = fresh()
                            params.append({"sp": a0["sp"], "ty": "?", "k": "Binding", "local": lid, "name": "__fnarg%d" % j, "mode": "BindingMode(No, Not)"})
                            args.append({"id": fresh(), "sp": a0["sp"], "ty": "?", "k": "Path", "res": {"res": "Local", "local": lid, "name": "__fnarg%d" % j}})
                        call = {"id": fresh(), "sp": a0["sp"], "ty": "?", "k": "Call", "f": a0, "args": args, "callee": a0["callee"], "synthetic": True}
                        n["args"][i] = {"id": fresh(), "sp": a0["sp"], "ty": "closure", "k": "Closure", "def": "synthetic", "params": params, "body": call, "synthetic": True}
            for v in list(n.values()):
                visit(v)
        elif isinstance(n, list):
            for v in n:
                visit(v)

    for r in facts["fns"]:
        if "body" in r and not r.get("gen"):
            visit(r["body"])


def _normalise(facts):
    """Equivalent spellings are brought to one form before any rule looks at the tree, so that a rule written
    against `x.is_some()` also reads `!x.is_none()`:
      !x.is_none() -> x.is_some(), !x.is_some() -> x.is_none();  x.len() == 0 -> x.is_empty(), x.len() != 0 / > 0 ->
      !x.is_empty();  !(a == b) -> a != b, !(a != b) -> a == b;  <constant> == x -> x == <constant>;
      x = x + e -> x += e;  Box::from(e) -> Box::new(e);  e.to_owned() (not str / slice) and Clone::clone(&e) ->
      e.clone();  Vec::default() -> Vec::new();  a single-use, never reassigned local initialised with a
      literal, a constant, a place or a copy of a place is read through at its use (`let f = a.b.clone(); S { f }`
      is S { f: a.b.clone() })."""
    import copy

    counter = [60_000_000]

    def fresh():
        counter[0] += 1
        return counter[0]

    def peel(n):
        while isinstance(n, dict) and n.get("k") in ("DropTemps", "Use") and "x" in n:
            n = n["x"]
        return n

    def is_const(n):
        n = peel(n)
        if not isinstance(n, dict):
            return False
        if n.get("k") == "Lit":
            return True
        if n.get("k") == "Path" and (n.get("res") or {}).get("res") == "Def" and ((n["res"].get("kind") or "").startswith(("Ctor", "Const", "AssocConst", "Static"))):
            return True
        if n.get("k") == "AddrOf":
            return is_const(n.get("x"))
        return False

    def place_text(n):
        n = peel(n)
        if not isinstance(n, dict):
            return None
        k = n.get("k")
        if k == "Path" and (n.get("res") or {}).get("res") == "Local":
            return "#%s" % n["res"].get("local")
        if k == "Field":
            b = place_text(n.get("x"))
            return None if b is None else b + "." + str(n.get("field"))
        if k == "Unary" and n.get("op") == "Deref":
            return place_text(n.get("x"))
        if k == "AddrOf":
            return place_text(n.get("x"))
        return None

    def replace(n, new, keep_id=True):
        keep = {"id": n.get("id"), "sp": n.get("sp")}
        for kk in ("adj", "aty"):
            if kk in n:
                keep[kk] = n[kk]
        n.clear()
        n.update(new)
        if keep_id:
            n["id"] = keep["id"]
        n.setdefault("sp", keep["sp"])
        for kk in ("adj", "aty"):
            if kk in keep and kk not in n:
                n[kk] = keep[kk]
        n["normalised"] = True

    def visit(n):
        if isinstance(n, list):
            for v in n:
                visit(v)
            return
        if not isinstance(n, dict):
            return
        for v in list(n.values()):
            visit(v)
        k = n.get("k")
        if k == "Unary" and n.get("op") == "Not":
            x = peel(n.get("x"))
            if isinstance(x, dict) and x.get("k") == "MethodCall" and x.get("method") in ("is_none", "is_some") and not x.get("args") and "Option" in ((x.get("callee") or {}).get("path") or ""):
                flip = "is_some" if x["method"] == "is_none" else "is_none"
                new = dict(x)
                new["method"] = flip
                c = dict(new.get("callee") or {})
                c["name"] = flip
                c["path"] = (c.get("path") or "").rsplit("::", 1)[0] + "::" + flip
                new["callee"] = c
                replace(n, new)
                return
            if isinstance(x, dict) and x.get("k") == "Binary" and x.get("op") in ("Eq", "Ne") and (x.get("ty") in (None, "bool")):
                new = dict(x)
                new["op"] = "Ne" if x["op"] == "Eq" else "Eq"
                c = new.get("callee")
                if isinstance(c, dict) and c.get("name") in ("eq", "ne"):
                    c = dict(c)
                    c["name"] = "ne" if c["name"] == "eq" else "eq"
                    new["callee"] = c
                replace(n, new)
                return
        if k == "If" and "else" in n:
            # `if !c { A } else { B }`  ->  `if c { B } else { A }`
            c0 = peel(n.get("cond"))
            if isinstance(c0, dict) and c0.get("k") == "Unary" and c0.get("op") == "Not" and (c0.get("ty") in (None, "bool")):
                n["cond"] = c0["x"]
                n["then"], n["else"] = n["else"], n["then"]
                n["normalised"] = True
            elif isinstance(c0, dict) and c0.get("k") == "Binary" and c0.get("op") == "Ne" and c0.get("normalised"):
                # (a negation that was folded into `!=` just above)
                c0["op"] = "Eq"
                cc = c0.get("callee")
                if isinstance(cc, dict) and cc.get("name") == "ne":
                    cc = dict(cc)
                    cc["name"] = "eq"
                    c0["callee"] = cc
                n["then"], n["else"] = n["else"], n["then"]
                n["normalised"] = True
            elif isinstance(c0, dict) and c0.get("k") == "MethodCall" and c0.get("method") == "is_none" and c0.get("normalised") and "Option" in ((c0.get("callee") or {}).get("path") or ""):
                c0["method"] = "is_some"
                cc = dict(c0.get("callee") or {})
                cc["name"] = "is_some"
                cc["path"] = (cc.get("path") or "").rsplit("::", 1)[0] + "::is_some"
                c0["callee"] = cc
                n["then"], n["else"] = n["else"], n["then"]
                n["normalised"] = True
        if k == "Binary" and n.get("op") in ("Eq", "Ne", "Gt", "Lt") and "l" in n and "r" in n:
            l, r = peel(n["l"]), peel(n["r"])
            # <constant> == x  ->  x == <constant>
            if n["op"] in ("Eq", "Ne") and is_const(l) and not is_const(r):
                n["l"], n["r"] = n["r"], n["l"]
                n["normalised"] = True
                l, r = r, l
            # x.len() == 0 / != 0 / > 0
            zero_r = isinstance(r, dict) and r.get("k") == "Lit" and (r.get("lit") or {}).get("v") in (0, "0")
            if zero_r and isinstance(l, dict) and l.get("k") == "MethodCall" and l.get("method") == "len" and not l.get("args") and n["op"] in ("Eq", "Ne", "Gt"):
                c = dict(l.get("callee") or {})
                c["name"] = "is_empty"
                c["path"] = (c.get("path") or "").rsplit("::", 1)[0] + "::is_empty"
                call = {"id": fresh(), "sp": n.get("sp"), "ty": "bool", "k": "MethodCall", "method": "is_empty", "recv": l["recv"], "args": [], "callee": c, "normalised": True}
                if n["op"] == "Eq":
                    replace(n, call)
                else:
                    replace(n, {"k": "Unary", "op": "Not", "x": call, "ty": "bool"})
                return
        if k == "Assign" and "l" in n and "r" in n:
            r = peel(n["r"])
            if isinstance(r, dict) and r.get("k") == "Binary" and r.get("op") in ("Add", "Sub") and place_text(n["l"]) is not None and place_text(r.get("l")) == place_text(n["l"]):
                replace(n, {"k": "AssignOp", "op": r["op"] + "Assign", "l": n["l"], "r": r["r"], "ty": n.get("ty")})
                return
        if k in ("Call", "MethodCall"):
            c = n.get("callee") or {}
            path = c.get("path") or ""
            name = c.get("name") or n.get("method")
            if k == "Call" and name == "from" and len(n.get("args", [])) == 1 and ("boxed::Box" in (c.get("resolved") or "") or "boxed::Box" in (n.get("ty") or "")) and (c.get("trait") or "").startswith("std::convert::From"):
                c2 = {"path": "std::boxed::Box::<T>::new", "name": "new", "krate": "alloc", "kind": "AssocFn", "self_ty": "std::boxed::Box<T>", "gargs": c.get("gargs", [])}
                n["callee"] = c2
                if isinstance(n.get("f"), dict):
                    n["f"]["callee"] = c2
                n["normalised"] = True
            if k == "Call" and name == "default" and "vec::Vec" in (n.get("ty") or "") and not n.get("args"):
                c2 = {"path": "std::vec::Vec::<T>::new", "name": "new", "krate": "alloc", "kind": "AssocFn", "self_ty": "std::vec::Vec<T>", "gargs": c.get("gargs", [])}
                n["callee"] = c2
                if isinstance(n.get("f"), dict):
                    n["f"]["callee"] = c2
                n["normalised"] = True
            if k == "MethodCall" and name == "to_owned" and path.endswith("ToOwned::to_owned"):
                rty = (peel(n.get("recv")) or {}).get("ty") or ""
                core = rty.replace("&mut ", "").replace("&", "").strip()
                if core not in ("str",) and not core.startswith("["):
                    c2 = dict(c)
                    c2["name"] = "clone"
                    c2["path"] = "std::clone::Clone::clone"
                    c2["trait"] = "std::clone::Clone"
                    n["method"] = "clone"
                    n["callee"] = c2
                    n["normalised"] = True
            if k == "Call" and name == "clone" and path.endswith("Clone::clone") and len(n.get("args", [])) == 1:
                a0 = n["args"][0]
                recv = a0["x"] if isinstance(a0, dict) and a0.get("k") == "AddrOf" and "x" in a0 else a0
                new = {"k": "MethodCall", "method": "clone", "recv": recv, "args": [], "callee": c, "ty": n.get("ty")}
                replace(n, new)
                return

    def inline_locals(body):
        """single-use, never reassigned, non-mut locals with a trivial initialiser are read through at the use"""
        lets = {}
        uses = {}
        assigned = set()
        for n in _walk_json(body):
            k = n.get("k")
            if k == "Block":
                for st in n.get("stmts", []):
                    if st.get("k") == "Let" and st.get("init") is not None and "els" not in st and (st.get("pat") or {}).get("k") == "Binding" and "Mut)" not in ((st["pat"].get("mode") or "")) and "Yes" not in (st["pat"].get("mode") or "") and not st["pat"].get("sub"):
                        lets[st["pat"]["local"]] = st
            elif k == "Path" and (n.get("res") or {}).get("res") == "Local":
                uses.setdefault(n["res"]["local"], []).append(n)
            elif k in ("Assign", "AssignOp"):
                pt = place_text(n.get("l"))
                if pt:
                    assigned.add(pt.split(".")[0])

        def trivial(e, depth=0):
            e = peel(e)
            if not isinstance(e, dict) or depth > 4:
                return False
            k = e.get("k")
            if k == "Lit" or is_const(e):
                return True
            if k == "Path" and (e.get("res") or {}).get("res") == "Local":
                return True
            if k in ("Field", "AddrOf", "Cast") or (k == "Unary" and e.get("op") == "Deref"):
                return trivial(e.get("x"), depth + 1)
            if k == "MethodCall" and e.get("method") in ("clone", "to_owned", "to_string", "as_str", "as_ref") and not e.get("args"):
                return trivial(e.get("recv"), depth + 1)
            if k == "Call":
                # a constructor (enum variant / tuple struct) or Box::new around something trivial
                f0 = peel(e.get("f"))
                cp = (f0.get("res") or {}).get("ctor_path") if isinstance(f0, dict) and f0.get("k") == "Path" else None
                boxnew = (e.get("callee") or {}).get("name") == "new" and "boxed::Box" in ((e.get("callee") or {}).get("path") or "")
                if (cp or boxnew) and len(e.get("args", [])) <= 2:
                    return all(trivial(a_, depth + 1) for a_ in e.get("args", []))
            return False

        def shared_view(e):
            """`&place`: a shared view that can be read through at every use"""
            e = peel(e)
            return isinstance(e, dict) and e.get("k") == "AddrOf" and not e.get("mut") and place_text(e.get("x")) is not None

        # `let c = <condition>; if c { .. }`: a boolean computed for the very next `if` is that `if`'s condition
        for n in _walk_json(body):
            if n.get("k") != "Block":
                continue
            sts = n.get("stmts", [])
            for i_, st in enumerate(sts):
                if not (st.get("k") == "Let" and st.get("init") is not None and "els" not in st and (st.get("pat") or {}).get("k") == "Binding" and (st["pat"].get("ty") == "bool" or (peel(st["init"]) or {}).get("ty") == "bool")):
                    continue
                lid = st["pat"]["local"]
                us = uses.get(lid, [])
                if len(us) != 1 or ("#%s" % lid) in assigned:
                    continue
                nxt = sts[i_ + 1] if i_ + 1 < len(sts) else None
                nxt_e = (nxt.get("e") if nxt is not None and nxt.get("k") != "Let" else (nxt.get("init") if nxt is not None else None)) if nxt is not None else n.get("tail")
                nx = peel(nxt_e) if nxt_e is not None else None
                while isinstance(nx, dict) and nx.get("k") in ("BlockExpr",) and not nx.get("block", {}).get("stmts") and "tail" in nx.get("block", {}):
                    nx = peel(nx["block"]["tail"])
                if not (isinstance(nx, dict) and nx.get("k") == "If" and any(x is us[0] for x in _walk_json(nx.get("cond")))):
                    continue
                new = copy.deepcopy(peel(st["init"]))
                for x in _walk_json(new):
                    if "id" in x:
                        x["id"] = fresh()
                use = us[0]
                uid = use.get("id")
                use.clear()
                use.update(new)
                use["id"] = uid
                use["normalised"] = True
                use["inlined_local"] = lid
                uses[lid] = []

        for lid, st in lets.items():
            us = uses.get(lid, [])
            if ("#%s" % lid) in assigned or not trivial(st["init"]):
                continue
            if len(us) != 1 and not (us and len(us) <= 6 and shared_view(st["init"])):
                continue
            if len(us) != 1:
                reads = {("#%s" % x["res"]["local"]) for x in _walk_json(st["init"]) if x.get("k") == "Path" and (x.get("res") or {}).get("res") == "Local"}
                if reads & assigned:
                    continue
                for use in us:
                    new = copy.deepcopy(peel(st["init"]))
                    for x in _walk_json(new):
                        if "id" in x:
                            x["id"] = fresh()
                    keep = {kk: use[kk] for kk in ("adj", "aty") if kk in use}
                    uid = use.get("id")
                    use.clear()
                    use.update(new)
                    use["id"] = uid
                    use.update({kk: vv for kk, vv in keep.items() if kk not in use})
                    use["normalised"] = True
                    use["inlined_local"] = lid
                continue
            if any(x is us[0] for x in _walk_json(st["init"])):
                continue
            # the locals the initialiser reads must not be written between the let and the use: keep it simple -
            # they are never assigned at all in this body
            reads = {("#%s" % x["res"]["local"]) for x in _walk_json(st["init"]) if x.get("k") == "Path" and (x.get("res") or {}).get("res") == "Local"}
            if reads & assigned:
                continue
            new = copy.deepcopy(peel(st["init"]))
            for x in _walk_json(new):
                if "id" in x:
                    x["id"] = fresh()
            use = us[0]
            keep = {kk: use[kk] for kk in ("adj", "aty") if kk in use}
            uid = use.get("id")
            use.clear()
            use.update(new)
            use["id"] = uid
            use.update({kk: vv for kk, vv in keep.items() if kk not in use})
            use["normalised"] = True
            use["inlined_local"] = lid

    def destructure_alias(body):
        """`let S { a, b, .. } = v;` (by value, from a local): `a` *is* `v.a` from then on - every use of the new
        local is read as the field of the old one, so that a rule about `visitor.assignments` still sees it"""
        for blk in [n for n in _walk_json(body) if n.get("k") == "Block"]:
            for st in blk.get("stmts", []):
                pat = st.get("pat") or {}
                init = peel(st.get("init")) if st.get("init") is not None else None
                if not (st.get("k") == "Let" and "els" not in st and pat.get("k") == "Struct" and isinstance(init, dict) and init.get("k") == "Path" and (init.get("res") or {}).get("res") == "Local" and not init.get("adj")):
                    continue
                if (pat.get("ty") or "").startswith("&"):
                    continue
                for fl in pat.get("fields", []):
                    fp = fl.get("pat") or {}
                    if fp.get("k") != "Binding" or fp.get("sub") or "Yes" in (fp.get("mode") or ""):
                        continue
                    lid = fp["local"]
                    for use in [x for x in _walk_json(body) if x.get("k") == "Path" and (x.get("res") or {}).get("res") == "Local" and x["res"]["local"] == lid]:
                        base = copy.deepcopy(init)
                        base["id"] = fresh()
                        keep = {kk: use[kk] for kk in ("adj", "aty", "sp", "id") if kk in use}
                        use.clear()
                        use.update({"k": "Field", "field": fl["name"], "ty": fp.get("ty"), "base_ty": pat.get("ty"), "x": base, "normalised": True, "destructured_local": lid})
                        use.update(keep)

    def library_ctors(body):
        """constructors of the swc AST crate whose meaning is a struct literal are read as that literal:
        `Ident::new(sym, span, ctxt)`, `Ident::new_no_ctxt(sym, span)` (optional: false),
        `<Ident as Into<BindingIdent>>::into(id)` / `BindingIdent::from(id)` (type_ann: None)"""
        def path_node(p, kind, ty):
            return {"id": fresh(), "sp": "?:0:0-0:0", "ty": ty, "k": "Path", "res": {"res": "Def", "kind": kind, "path": p, "krate": "swc_common", "ctor_path": p if kind.startswith("Ctor") else None}, "qname": p.split("::")[-1], "synthetic": True}

        for n in list(_walk_json(body)):
            if n.get("k") not in ("Call", "MethodCall") or not n.get("callee"):
                continue
            c = n["callee"]
            path = (c.get("resolved") or c.get("path") or "")
            ty = n.get("ty") or ""
            args = ([n["recv"]] if n.get("k") == "MethodCall" else []) + list(n.get("args", []))
            new = None
            if ty.endswith("swc_ecma_ast::Ident") and "swc_ecma_ast" in path and path.split("::")[-1] in ("new", "new_no_ctxt") and "Ident" in path and "IdentName" not in path and len(args) in (2, 3):
                none_ = {"id": fresh(), "sp": n.get("sp"), "ty": "bool", "k": "Lit", "lit": {"t": "bool", "v": False}, "synthetic": True}
                ctxt = args[2] if len(args) == 3 else {"id": fresh(), "sp": n.get("sp"), "ty": "swc_common::SyntaxContext", "k": "Call", "synthetic": True, "callee": {"path": "swc_common::SyntaxContext::empty", "name": "empty", "krate": "swc_common", "kind": "AssocFn"}, "f": path_node("swc_common::SyntaxContext::empty", "AssocFn", "fn"), "args": []}
                new = {"k": "Struct", "res": {"res": "Def", "kind": "Struct", "path": "swc_ecma_ast::Ident", "krate": "swc_ecma_ast"}, "qname": "Ident", "fields": [{"name": "span", "shorthand": False, "e": args[1]}, {"name": "sym", "shorthand": False, "e": args[0]}, {"name": "optional", "shorthand": False, "e": none_}, {"name": "ctxt", "shorthand": False, "e": ctxt}]}
            elif ty.endswith("swc_ecma_ast::BindingIdent") and path.split("::")[-1] in ("into", "from") and len(args) == 1 and (args[0].get("ty") or "").replace("&", "").endswith("swc_ecma_ast::Ident"):
                none_ = {"id": fresh(), "sp": n.get("sp"), "ty": "std::option::Option<?>", "k": "Path", "synthetic": True, "res": {"res": "Def", "kind": "Ctor(Variant, Const)", "path": "std::option::Option::None", "krate": "core", "ctor_of": "Variant", "ctor_kind": "Const", "ctor_path": "std::option::Option::None"}, "qname": "None"}
                new = {"k": "Struct", "res": {"res": "Def", "kind": "Struct", "path": "swc_ecma_ast::BindingIdent", "krate": "swc_ecma_ast"}, "qname": "BindingIdent", "fields": [{"name": "id", "shorthand": False, "e": args[0]}, {"name": "type_ann", "shorthand": False, "e": none_}]}
            if new is not None:
                keep = {kk: n[kk] for kk in ("id", "sp", "ty", "adj", "aty") if kk in n}
                n.clear()
                n.update(new)
                n.update(keep)
                n["normalised"] = True

    for r in facts["fns"]:
        if "body" in r and not r.get("gen"):
            visit(r["body"])
            library_ctors(r["body"])
            destructure_alias(r["body"])
            inline_locals(r["body"])
    for c in facts.get("consts") or []:
        if "body" in c and not c.get("gen"):
            visit(c["body"])


def _inline_new_ctor_fns(facts):
    """A function that the reviewed tree does not have and that only builds a value from its parameters
    (`fn new(a, b) -> S { S { a, b, ctx: Ctx::root() } }`, `fn new_ident(name, span) -> Ident { Ident {..} }`)
    is read as that value at its call sites: the call is replaced by the function's tail expression with the
    parameters replaced by the arguments.  When no other reference to the function is left it is hidden
    from the rules like generated code."""
    import copy

    reviewed = {_generic_free(d) for d in _reviewed_table()}
    if not reviewed:
        return
    counter = [70_000_000]

    def fresh():
        counter[0] += 1
        return counter[0]

    def peel(n):
        while isinstance(n, dict) and n.get("k") in ("DropTemps", "Use") and "x" in n:
            n = n["x"]
        return n

    def pure(e, params, depth=0):
        e = peel(e)
        if not isinstance(e, dict) or depth > 8:
            return False
        k = e.get("k")
        if k == "Lit":
            return True
        if k == "Path":
            r = e.get("res") or {}
            if r.get("res") == "Local":
                return r.get("local") in params
            return r.get("res") == "Def"
        if k == "Struct":
            return "base" not in e and all(pure(f["e"], params, depth + 1) for f in e.get("fields", []))
        if k in ("AddrOf", "Cast", "Field") or (k == "Unary" and e.get("op") == "Deref"):
            return pure(e.get("x"), params, depth + 1)
        if k == "Tup":
            return all(pure(x, params, depth + 1) for x in e.get("elems", []))
        if k == "Call":
            c = e.get("callee") or {}
            if _generic_free(c.get("path") or "") in cands:
                return False
            return all(pure(a, params, depth + 1) for a in e.get("args", []))
        if k == "MethodCall":
            if e.get("method") not in ("clone", "into", "to_owned", "to_string", "as_str", "as_ref"):
                return False
            return pure(e.get("recv"), params, depth + 1) and not e.get("args")
        return False

    cands = {}
    for r in facts["fns"]:
        if "body" not in r or r.get("gen") or r.get("in_test") or r.get("impl_of_trait"):
            continue
        if _generic_free(r["def"]) in reviewed or (r["def"] in reviewed):
            continue
        b = peel(r["body"])
        if not (isinstance(b, dict) and b.get("k") == "BlockExpr" and not b["block"].get("stmts") and "tail" in b["block"]):
            continue
        params = {}
        ok = True
        for i, prm in enumerate(r.get("params", [])):
            pat = prm.get("pat") or {}
            if pat.get("k") != "Binding" or pat.get("sub"):
                ok = False
                break
            params[pat["local"]] = i
        tail = b["block"]["tail"]
        t0 = peel(tail)
        builds = isinstance(t0, dict) and (t0.get("k") == "Struct" or (t0.get("k") == "Call" and (peel(t0.get("f")) or {}).get("k") == "Path" and ((peel(t0.get("f")).get("res") or {}).get("ctor_path"))))
        if ok and builds:
            cands[_generic_free(r["def"])] = (r, params, tail)
    cands = {d: v for d, v in cands.items() if pure(v[2], v[1])}
    if not cands:
        return
    left = {d: 0 for d in cands}
    for r in facts["fns"]:
        if "body" not in r or r.get("gen"):
            continue
        for n in list(_walk_json(r["body"])):
            if n.get("k") == "Call" and n.get("callee"):
                d = _generic_free(n["callee"].get("path") or "")
                if d in cands and cands[d][0] is not r:
                    cr, params, tail = cands[d]
                    if len(n.get("args", [])) != len(params):
                        left[d] += 1
                        continue
                    uses = {}
                    for x in _walk_json(tail):
                        if x.get("k") == "Path" and (x.get("res") or {}).get("res") == "Local" and x["res"]["local"] in params:
                            uses[x["res"]["local"]] = uses.get(x["res"]["local"], 0) + 1
                    simple = lambda a: peel(a).get("k") in ("Path", "Lit", "Field", "AddrOf")
                    if any(cnt > 1 and not simple(n["args"][params[l]]) for l, cnt in uses.items()):
                        left[d] += 1
                        continue
                    new = copy.deepcopy(peel(tail))
                    for x in list(_walk_json(new)):
                        if "id" in x:
                            x["id"] = fresh()
                    for x in list(_walk_json(new)):
                        if x.get("k") == "Path" and (x.get("res") or {}).get("res") == "Local" and x["res"]["local"] in params:
                            arg = copy.deepcopy(peel(n["args"][params[x["res"]["local"]]]))
                            keep = {kk: x[kk] for kk in ("id",) if kk in x}
                            x.clear()
                            x.update(arg)
                            x.update(keep)
                    keep = {kk: n[kk] for kk in ("id", "adj", "aty") if kk in n}
                    n.clear()
                    n.update(new)
                    n.update(keep)
                    n["inlined_ctor_fn"] = d
        for n in _walk_json(r["body"]):
            if n.get("k") == "Path" and (n.get("res") or {}).get("res") == "Def" and _generic_free((n["res"].get("path") or "")) in cands and cands[_generic_free(n["res"]["path"])][0] is not r:
                left[_generic_free(n["res"]["path"])] += 1
    for d, (cr, params, tail) in cands.items():
        if left[d] == 0:
            cr["gen"] = True
            cr["inlined_ctor"] = True


def _inline_new_fns(facts):
    """The general form of _inline_new_ctor_fns: a function that the reviewed tree does not have (a helper a
    clean-up extracted), that is not recursive, is no trait method some type overrides, binds its parameters
    by plain names and leaves only through its tail expression (no `return`, no `?`), is read at its call
    sites as the block `{ let <param> = <argument>; ..; <body> }` with its locals renamed apart.  When every
    reference to it has been replaced it is hidden from the rules like generated code: they see the code
    where it runs, as they did before the helper was extracted."""
    import copy

    reviewed = {_generic_free(d) for d in _reviewed_table()}
    if not reviewed:
        return
    counter = [80_000_000]

    def fresh():
        counter[0] += 1
        return counter[0]

    overridden = set()
    for r in facts["fns"]:
        if r.get("impl_of_trait"):
            overridden.add((r["impl_of_trait"], r["def"].split("::")[-1]))

    def candidate(r):
        if "body" not in r or r.get("gen") or r.get("in_test") or r.get("impl_of_trait") or r.get("inlined_ctor"):
            return False
        d = _generic_free(r["def"])
        if d in reviewed or r["def"] in reviewed:
            return False
        if r["def"].split("::")[-1] in ("main",) or "::tests::" in r["def"] or r["def"].startswith("tests::"):
            return False
        tr = "::".join(r["def"].split("::")[:-1])
        if (tr, r["def"].split("::")[-1]) in overridden:
            return False
        for prm in r.get("params", []):
            pat = prm.get("pat") or {}
            if pat.get("k") != "Binding" or pat.get("sub"):
                return False
        n = 0
        for x in _walk_json(r["body"]):
            n += 1
            if x.get("k") in ("Ret", "Yield", "InlineAsm"):
                return False
            if x.get("k") == "Match" and (x.get("source") or "").startswith("TryDesugar"):
                return False
            c = x.get("callee") or {}
            if _generic_free(c.get("path") or "") == d:
                return False
        return n < 600

    def rename(params, body):
        """a copy of (param patterns, body) with fresh node ids and fresh local ids"""
        new = copy.deepcopy({"params": params, "body": body})
        lmap = {}
        for x in _walk_json(new):
            if "id" in x and isinstance(x["id"], int):
                x["id"] = fresh()
            if x.get("k") == "Binding" and "local" in x:
                if x["local"] not in lmap:
                    lmap[x["local"]] = fresh()
        for x in _walk_json(new):
            if x.get("k") == "Binding" and "local" in x:
                x["local"] = lmap[x["local"]]
            elif x.get("k") == "Path" and (x.get("res") or {}).get("res") == "Local" and x["res"].get("local") in lmap:
                x["res"] = dict(x["res"], local=lmap[x["res"]["local"]])
        return new["params"], new["body"]

    for _round in range(3):
        cands = {_generic_free(r["def"]): r for r in facts["fns"] if candidate(r)}
        if not cands:
            return
        left = {d: 0 for d in cands}
        changed = False
        for r in facts["fns"]:
            if "body" not in r or r.get("gen"):
                continue
            # innermost calls first: a call node is replaced in place, its (already visited) children move along
            nodes = [n for n in _walk_json(r["body"]) if n.get("k") in ("Call", "MethodCall") and n.get("callee")]
            for n in reversed(nodes):
                d = _generic_free((n["callee"].get("path") or ""))
                cr = cands.get(d)
                if cr is None or cr is r:
                    continue
                args = ([n["recv"]] if n.get("k") == "MethodCall" else []) + list(n.get("args", []))
                if len(args) != len(cr.get("params", [])):
                    left[d] += 1
                    continue
                pats, body = rename([prm["pat"] for prm in cr["params"]], cr["body"])
                b = body
                while isinstance(b, dict) and b.get("k") in ("DropTemps", "Use") and "x" in b:
                    b = b["x"]
                if not (isinstance(b, dict) and b.get("k") == "BlockExpr"):
                    left[d] += 1
                    continue
                def simple(a_, depth=0):
                    while isinstance(a_, dict) and a_.get("k") in ("DropTemps", "Use") and "x" in a_:
                        a_ = a_["x"]
                    if not isinstance(a_, dict) or depth > 4:
                        return False
                    if a_.get("k") in ("Path", "Lit"):
                        return True
                    if a_.get("k") in ("Field", "AddrOf", "Cast") or (a_.get("k") == "Unary" and a_.get("op") == "Deref"):
                        return simple(a_.get("x"), depth + 1)
                    return False

                lets = []
                for pt, a in zip(pats, args):
                    uses = [x for x in _walk_json(b) if x.get("k") == "Path" and (x.get("res") or {}).get("res") == "Local" and x["res"].get("local") == pt.get("local")]
                    assigned = any(x.get("k") in ("Assign", "AssignOp") and isinstance(x.get("l"), dict) and x["l"].get("k") == "Path" and (x["l"].get("res") or {}).get("local") == pt.get("local") for x in _walk_json(b))
                    if simple(a) and not assigned:
                        # a parameter bound to a name / place / literal is that argument wherever it is read
                        for u in uses:
                            arg = copy.deepcopy(a)
                            for y in _walk_json(arg):
                                if "id" in y and isinstance(y["id"], int):
                                    y["id"] = fresh()
                            keep_u = {kk: u[kk] for kk in ("id",) if kk in u}
                            u.clear()
                            u.update(arg)
                            u.update(keep_u)
                        continue
                    lets.append({"k": "Let", "id": fresh(), "sp": a.get("sp"), "pat": pt, "init": a})
                blk = b["block"]
                keep = {kk: n[kk] for kk in ("id", "sp", "ty", "adj", "aty") if kk in n}
                stmts_ = lets + list(blk.get("stmts", []))
                if not stmts_ and "tail" in blk:
                    t_ = blk["tail"]
                    while isinstance(t_, dict) and t_.get("k") in ("DropTemps", "Use") and "x" in t_:
                        t_ = t_["x"]
                    newn = dict(t_)
                    newn["inlined_fn"] = d
                    keep = {kk: n[kk] for kk in ("id",) if kk in n}
                else:
                    newn = {"k": "BlockExpr", "block": {"k": "Block", "id": fresh(), "sp": blk.get("sp"), "unsafe": blk.get("unsafe", False), "stmts": stmts_}, "inlined_fn": d}
                    if "tail" in blk:
                        newn["block"]["tail"] = blk["tail"]
                n.clear()
                n.update(newn)
                n.update(keep)
                changed = True
            for n in _walk_json(r["body"]):
                if n.get("k") == "Path" and (n.get("res") or {}).get("res") == "Def":
                    d = _generic_free(n["res"].get("path") or "")
                    if d in cands and cands[d] is not r:
                        left[d] += 1
        for d, cr in cands.items():
            if left[d] == 0:
                cr["gen"] = True
                cr["inlined_ctor"] = True
        if not changed:
            break
    # node ids double as positions (a rule asks what happened *before* a node): number the functions that
    # received inlined code again, in evaluation (pre-) order
    def renumber(n, nxt):
        if isinstance(n, dict):
            if "id" in n and isinstance(n["id"], int):
                n["id"] = nxt[0]
                nxt[0] += 1
            for v in list(n.values()):
                renumber(v, nxt)
        elif isinstance(n, list):
            for v in n:
                renumber(v, nxt)

    for r in facts["fns"]:
        if "body" in r and not r.get("gen") and any(x.get("inlined_fn") for x in _walk_json(r["body"])):
            renumber(r["body"], [1])


def _walk_json(n):
    stack = [n]
    while stack:
        x = stack.pop()
        if isinstance(x, dict):
            if "k" in x:
                yield x
            stack.extend(x.values())
        elif isinstance(x, list):
            stack.extend(x)


def _generic_free(p):
    """Drop generic argument lists `::<...>` from a def path for comparison."""
    out = []
    depth = 0
    i = 0
    while i < len(p):
        ch = p[i]
        if ch == "<" and (i >= 2 and p[i - 2 : i] == "::"):
            # remove the preceding '::'
            if depth == 0:
                out = out[:-2]
            depth += 1
        elif ch == "<" and depth > 0:
            depth += 1
        elif ch == ">" and depth > 0:
            depth -= 1
        elif depth == 0:
            out.append(ch)
        i += 1
    return "".join(out)


# ---------------------------------------------------------------------------------------------


class Check:
    def __init__(self, prop_id, tier, program):
        self.prop = prop_id
        self.tier = tier
        self.prog = program
        self.instances = []
        self.notes = []
        self.t0 = time.time()
        self.rules = {}
        self._seen = set()

    def rule(self, rule_id, text):
        self.rules[rule_id] = text

    def ok(self, rule, key, where, detail=""):
        sig = (rule, key, where, detail)
        if sig in self._seen:
            return
        self._seen.add(sig)
        self.instances.append({"rule": rule, "key": key, "verdict": "ok", "where": where, "detail": detail})

    def bad(self, rule, key, where, detail="", witness=None):
        sig = (rule, key, where, detail)
        if sig in self._seen:
            return
        self._seen.add(sig)
        self.instances.append(
            {"rule": rule, "key": key, "verdict": "violation", "where": where, "detail": detail, "witness": witness}
        )

    def expect(self, cond, rule, key, where, detail_ok="", detail_bad=""):
        if cond:
            self.ok(rule, key, where, detail_ok)
        else:
            self.bad(rule, key, where, detail_bad or detail_ok)
        return cond

    def floor(self, rule, what, count, minimum):
        """Anti-vacuity: the rule must have matched at least the number of sites confirmed by hand."""
        key = "%s/FLOOR/%s" % (rule, what)
        if count < minimum:
            self.bad(rule, key, "-", "only %d %s found, at least %d confirmed on the reviewed tree: anchor lost" % (count, what, minimum))
        else:
            self.ok(rule, key, "-", "%d %s (floor %d)" % (count, what, minimum))

    def guarded(self, rule, fn):
        """Run a rule function; a missing anchor is a violation (fail closed) unless the named entity is
        gone from the tree altogether (see AnchorMissing)."""
        try:
            fn(self)
        except AnchorMissing as e:
            if getattr(e, "absent", False):
                self.undecided(rule, str(e).split(" (")[0])
            else:
                self.bad(rule, "%s/ANCHOR/%s" % (rule, str(e).split(" (")[0]), "-", "anchor missing: %s" % e)

    def undecided(self, rule, what):
        key = "%s/UNDECIDED/%s" % (rule, what)
        sig = (rule, key)
        if sig in self._seen:
            return
        self._seen.add(sig)
        self.instances.append({"rule": rule, "key": key, "verdict": "undecided", "where": "-", "detail": "%s of the reviewed tree does not exist in this tree (restructured): the rule was not evaluated" % what})

    def note(self, s):
        self.notes.append(s)


class Only:
    """view of a Check that keeps the instances of one rule whose key contains one of the given parts and
    files them under another rule name (a clause of a rule registered under another property)"""

    def __init__(self, check, rule, as_rule, parts):
        self._c, self._rule, self._as, self._parts = check, rule, as_rule, parts
        self.prog = check.prog
        self.tier = check.tier
        self.prop = getattr(check, "prop", None)

    def _keep(self, rule, key):
        return rule == self._rule and any(x in key for x in self._parts)

    def _k(self, key):
        return key.replace(self._rule, self._as, 1)

    def rule(self, rule_id, text):
        pass

    def note(self, s):
        pass

    def ok(self, rule, key, *a, **k):
        if self._keep(rule, key):
            self._c.ok(self._as, self._k(key), *a, **k)

    def bad(self, rule, key, *a, **k):
        if self._keep(rule, key):
            self._c.bad(self._as, self._k(key), *a, **k)

    def expect(self, cond, rule, key, *a, **k):
        if self._keep(rule, key):
            return self._c.expect(cond, self._as, self._k(key), *a, **k)
        return cond

    def floor(self, rule, what, *a, **k):
        if self._keep(rule, "/FLOOR/" + what):
            self._c.floor(self._as, what, *a, **k)

    def guarded(self, rule, fn):
        fn(self)

    def undecided(self, rule, what):
        self._c.undecided(self._as, what)


def load_known():
    p = os.path.join(VERIF, "known_findings.json")
    if not os.path.exists(p):
        return {"findings": [], "fixed": []}
    with open(p) as fh:
        return json.load(fh)


def finish(check, explanation, assumptions, not_decided, extra_cov=None):
    known = load_known()
    known_keys = {(k["property"], k["key"]): k for k in known.get("findings", [])}
    viol = []
    knownhits = []
    for inst in check.instances:
        if inst["verdict"] != "violation":
            continue
        kk = known_keys.get((check.prop, inst["key"]))
        if kk is not None:
            inst["verdict"] = "known"
            knownhits.append((inst, kk))
        else:
            viol.append(inst)
    seen = set()
    for inst, kk in knownhits:
        if inst["key"] in seen:
            continue
        seen.add(inst["key"])
        print("KNOWN-FINDING: property=%s %s [%s at %s]" % (check.prop, kk["what"], inst["key"], inst["where"]))
    os.makedirs(os.path.join(VERIF, ".build", "replay"), exist_ok=True)
    vseen = set()
    uniq = []
    for inst in viol:
        if inst["key"] not in vseen:
            vseen.add(inst["key"])
            uniq.append(inst)
    for i, inst in enumerate(uniq):
        rp = os.path.join(VERIF, ".build", "replay", "%s-%d.json" % (check.prop, i))
        with open(rp, "w") as fh:
            json.dump({"property": check.prop, "instance": inst, "rule_text": check.rules.get(inst["rule"], "")}, fh, indent=1)
        print("%s: rule %s: %s: %s" % (inst["where"], inst["rule"], inst["key"], inst["detail"]))
        print("VIOLATION property=%s replay=%s" % (check.prop, rp))
    und = [i for i in check.instances if i["verdict"] == "undecided"]
    for inst in und:
        print("UNDECIDED property=%s rule=%s: %s" % (check.prop, inst["rule"], inst["detail"]))
    n = len(check.instances)
    ok = sum(1 for i in check.instances if i["verdict"] == "ok")
    distinct = len({i["key"] for i in check.instances if i["where"] != "-"})
    samples = []
    by_rule = {}
    for inst in check.instances:
        by_rule.setdefault(inst["rule"], []).append(inst)
    for r, insts in sorted(by_rule.items()):
        for inst in insts[:3]:
            samples.append({"rule": r, "key": inst["key"], "verdict": inst["verdict"], "where": inst["where"], "detail": inst["detail"][:300]})
    cov = {
        "explanation": explanation,
        "obligations": n,
        "discharged": ok,
        "known_findings_matched": len(seen),
        "evaluations": n,
        "distinct_nontrivial": distinct,
        "rule": "one evaluation = one rule instance (site, path or obligation) found in the analysed build; distinct = distinct instance keys bound to a source location",
        "samples": samples,
        "rules": check.rules,
        "instances_per_rule": {r: len(v) for r, v in sorted(by_rule.items())},
        "checker_cmd": "python3 bin/check.py %s --tier %s" % (check.prop, check.tier),
        "trusted_base": [
            "rustc nightly front-end (HIR, type check, MIR) as fact source",
            "swc_ecma_parser for the JS syntax trees",
            "the default (generated) swc visitor visits every child of a node",
        ],
        "analysed": {
            "functions": len(check.prog.user_fns),
            "fact_hash": check.prog.facts["_meta"]["hash"],
            "facts_fresh": check.prog.facts["_meta"]["fresh"],
            "repo": check.prog.repo,
        },
        "not_decided": not_decided,
        "undecided_rules": [{"rule": i["rule"], "why": i["detail"]} for i in und],
        "notes": check.notes + (["functions analysed under their reviewed names after a rename (unique signature match): %s" % check.prog.renamed] if check.prog.renamed else []),
        "exhaustive": True,
    }
    if extra_cov:
        cov.update(extra_cov)
    ev = {
        "property_id": check.prop,
        "tier": check.tier,
        "seed": int(os.environ.get("VERIF_SEED", "0") or 0),
        "level": "other",
        "coverage": cov,
        "assumptions": assumptions,
        "wall_s": round(time.time() - check.t0, 3),
        "violations": len(viol),
    }
    if check.prog.repo == REPO:
        os.makedirs(os.path.join(VERIF, "evidence"), exist_ok=True)
        with open(os.path.join(VERIF, "evidence", "%s.json" % check.prop), "w") as fh:
            json.dump(ev, fh, indent=1)
    print(
        "%s %s: %d rule instances, %d ok, %d known findings, %d violations (%.1fs)"
        % (check.prop, check.tier, n, ok, len(seen), len(viol), time.time() - check.t0)
    )
    return 1 if viol else 0
