"""Program model, rule bookkeeping, evidence and verdict output."""
import json
import os
import time

from . import hir
from .facts import VERIF, REPO


class AnchorMissing(Exception):
    """A function / type / field the rule is anchored on was not found.

    absent=False (default): fail closed - the rule reports a violation.
    absent=True: the *named* inherent function / type / constant of the reviewed tree does not exist in
    this tree at all (renamed with another signature, merged, split, moved into another type).  No edit
    that still compiles can delete such an entity without also rewriting every use of it, so this is a
    restructuring, not a dropped check: the rule cannot say anything about the new shape and is reported
    as UNDECIDED instead of raising an alarm.  Overrides of trait methods (whose removal silently falls
    back to the default method) are never treated this way."""

    def __init__(self, msg, absent=False):
        super().__init__(msg)
        self.absent = absent


_REVIEWED = None


def _reviewed_table():
    global _REVIEWED
    if _REVIEWED is None:
        p = os.path.join(VERIF, "rules", "anchors.json")
        try:
            with open(p) as fh:
                _REVIEWED = json.load(fh)
        except OSError:
            _REVIEWED = {}
    return _REVIEWED


def _is_trait_override(suffix):
    """was the reviewed function of this name an override of a trait method?"""
    hits = []
    for d, t in _reviewed_table().items():
        gd = _generic_free(d)
        if d == suffix or d.endswith("::" + suffix) or gd.endswith("::" + suffix) or gd == suffix:
            hits.append(t)
    if not hits:
        return " as " in suffix
    for t in hits:
        try:
            sig = json.loads(t["sig"])
        except Exception:
            return True
        if sig.get("trait") and not d_is_trait_decl(sig):
            return True
    return False


def d_is_trait_decl(sig):
    # provided methods declared inside the trait itself carry the trait in "trait" too; they have no
    # self type of their own
    return not sig.get("self")


class Program:
    def __init__(self, facts):
        from . import anchors

        self.renamed = anchors.normalise(facts) if not facts.get("_normalised") else facts.get("_renamed", [])
        facts["_normalised"] = True
        facts["_renamed"] = self.renamed
        self.facts = facts
        self.repo = facts["_meta"]["repo"]
        if not facts.get("_desugared"):
            _desugar_fn_values(facts)
            facts["_desugared"] = True
        self.fns = [hir.Fn(r, facts) for r in facts["fns"]]
        self.by_def = {f.def_path: f for f in self.fns}
        self.user_fns = [f for f in self.fns if not f.rec.get("gen") and f.body is not None]
        self.adts = facts["adts"]
        self.consts = {c["def"]: c for c in facts["consts"]}
        self.js = facts.get("js", {})
        self._callsites = None

    # ---- lookup -----------------------------------------------------------------------------
    def find_fns(self, suffix):
        out = []
        for f in self.fns:
            if f.body is None:
                continue
            d = f.def_path
            if d == suffix or d.endswith("::" + suffix) or _generic_free(d).endswith("::" + suffix) or _generic_free(d) == suffix:
                out.append(f)
        return out

    def fn(self, suffix):
        fs = self.find_fns(suffix)
        if len(fs) != 1:
            raise AnchorMissing("function %s (%d matches)" % (suffix, len(fs)), absent=(len(fs) == 0 and not _is_trait_override(suffix)))
        return fs[0]

    def fn_opt(self, suffix):
        fs = self.find_fns(suffix)
        return fs[0] if len(fs) == 1 else None

    def const_str(self, suffix):
        for d, c in self.consts.items():
            if d == suffix or d.endswith("::" + suffix):
                v = hir.lit_value(c["body"])
                if v is None:
                    raise AnchorMissing("const %s is not a literal" % suffix)
                return v
        raise AnchorMissing("const %s" % suffix, absent=True)

    def adt(self, suffix):
        hits = [a for p, a in self.adts.items() if p == suffix or p.endswith("::" + suffix)]
        if len(hits) != 1:
            raise AnchorMissing("type %s (%d matches)" % (suffix, len(hits)), absent=(len(hits) == 0))
        return hits[0]

    # ---- call graph --------------------------------------------------------------------------
    def call_sites(self):
        """list of (caller Fn, call node, callee record) for every resolved call in user fns
        (closures are part of their parent's HIR)."""
        if self._callsites is None:
            cs = []
            for f in self.fns:
                if f.body is None:
                    continue
                for n in f.nodes():
                    c = n.get("callee")
                    if c and (hir.is_call(n) or n.get("k") in ("Binary", "Unary", "Index", "Path")):
                        cs.append((f, n, c))
            self._callsites = cs
        return self._callsites

    def sites_calling(self, target):
        """call sites whose (resolved or declared) callee is the local function `target` (Fn) or
        whose path ends with the given suffix string.  Path nodes (fn used as a value) included."""
        out = []
        for f, n, c in self.call_sites():
            paths = [c["path"]] + ([c["resolved"]] if c.get("resolved") else [])
            for p in paths:
                if isinstance(target, hir.Fn):
                    if _generic_free(p) == _generic_free(target.def_path):
                        out.append((f, n))
                        break
                else:
                    gp = _generic_free(p)
                    if gp == target or gp.endswith("::" + target):
                        out.append((f, n))
                        break
        # a Call node and its `f` Path child both carry the callee: keep the Call only
        seen_calls = set()
        res = []
        for f, n in out:
            if n.get("k") == "Path":
                par = f.parent(n)
                if par is not None and par.get("k") == "Call" and hir.peel(par["f"]) is n:
                    continue
            key = (f.def_path, n["id"])
            if key not in seen_calls:
                seen_calls.add(key)
                res.append((f, n))
        return res

    def local_callees(self, f):
        """Fn objects called from f (resolved), including trait default methods."""
        out = []
        for n in f.nodes():
            c = n.get("callee")
            if not c:
                continue
            for p in [c.get("resolved"), c["path"]]:
                if not p:
                    continue
                g = self.by_generic_free().get(_generic_free(p))
                if g is not None:
                    out.append((n, g))
                    break
        return out

    def by_generic_free(self):
        if not hasattr(self, "_bgf"):
            self._bgf = {}
            for f in self.fns:
                if f.body is not None:
                    self._bgf[_generic_free(f.def_path)] = f
        return self._bgf

    def flat(self, f, depth=3):
        """f together with the crate functions it calls (transitively, bounded): the view a rule
        needs when it looks for *what a function does* regardless of how it is split into helpers."""
        out, seen, work = [], set(), [(f, 0)]
        while work:
            g, d = work.pop(0)
            if g.def_path in seen or g.body is None:
                continue
            seen.add(g.def_path)
            out.append(g)
            if d >= depth:
                continue
            for n in g.nodes():
                if n.get("callee"):
                    h = self.resolve_local(n)
                    if h is not None and not h.rec.get("gen") and not h.rec.get("in_test") and h.def_path not in seen:
                        work.append((h, d + 1))
        return out

    def flat_calls(self, f, name=None, depth=3):
        """[(g, call node)] over flat(f)"""
        out = []
        for g in self.flat(f, depth):
            for n in hir.calls_in(g.body, name=name):
                out.append((g, n))
        return out

    def resolve_local(self, n):
        """Fn for a call node if the callee is a function of this crate."""
        c = n.get("callee")
        if not c:
            return None
        for p in [c.get("resolved"), c["path"]]:
            if p:
                g = self.by_generic_free().get(_generic_free(p))
                if g is not None:
                    return g
        return None

    def src(self, n, max_lines=8):
        return hir.src_text(self.repo, n["sp"], max_lines)


HOF_ARITY = {"map": 1, "and_then": 1, "map_or": 1, "map_or_else": None, "unwrap_or_else": 0, "or_else": 0, "then": 0, "filter": 1, "is_some_and": 1, "for_each": 1, "any": 1, "all": 1, "find": 1, "inspect": 1, "ok_or_else": 0, "map_err": 1}


def _desugar_fn_values(facts):
    """`x.map_or_else(f, g)` with *paths to crate functions* as arguments is rewritten into the
    equivalent closures `x.map_or_else(|| f(), |v| g(v))`, so that the analyses (which understand
    closures and calls) see what is applied to what.  Constructor paths are left alone."""
    local_defs = {r["def"] for r in facts["fns"] if "body" in r}
    counter = [50_000_000]

    def fresh():
        counter[0] += 1
        return counter[0]

    def arity_of(path_node, method, pos, nargs):
        d = (path_node.get("res") or {}).get("path")
        for r in facts["fns"]:
            if r["def"] == d:
                return len(r.get("params", []))
        if method == "map_or_else":
            return 0 if pos == 0 else 1
        return HOF_ARITY.get(method)

    def visit(n):
        if isinstance(n, dict):
            # `cond.then(|| body)`  ==>  `if cond { Some(body) } else { None }`
            if n.get("k") == "MethodCall" and n.get("method") == "then" and len(n.get("args", [])) == 1:
                rv = n["recv"]
                r0 = rv
                while isinstance(r0, dict) and r0.get("k") in ("DropTemps", "Use"):
                    r0 = r0["x"]
                cl = n["args"][0]
                while isinstance(cl, dict) and cl.get("k") in ("DropTemps", "Use"):
                    cl = cl["x"]
                if isinstance(r0, dict) and r0.get("ty") == "bool" and isinstance(cl, dict) and cl.get("k") == "Closure" and not cl.get("params"):
                    some = {"id": fresh(), "sp": n["sp"], "ty": n.get("ty"), "k": "Call", "synthetic": True, "f": {"id": fresh(), "sp": n["sp"], "ty": "?", "k": "Path", "res": {"res": "Def", "kind": "Ctor(Variant, Fn)", "path": "std::option::Option::Some", "krate": "core", "ctor_of": "Variant", "ctor_kind": "Fn", "ctor_path": "std::option::Option::Some"}, "qname": "Some"}, "args": [cl["body"]]}
                    none = {"id": fresh(), "sp": n["sp"], "ty": n.get("ty"), "k": "Path", "synthetic": True, "res": {"res": "Def", "kind": "Ctor(Variant, Const)", "path": "std::option::Option::None", "krate": "core", "ctor_of": "Variant", "ctor_kind": "Const", "ctor_path": "std::option::Option::None"}, "qname": "None"}
                    keep = {"id": n["id"], "sp": n["sp"], "ty": n.get("ty")}
                    n.clear()
                    n.update(keep)
                    n.update({"k": "If", "cond": rv, "then": some, "else": none, "synthetic": True})
            if n.get("k") == "MethodCall" and n.get("method") in HOF_ARITY:
                for i, a in enumerate(n.get("args", [])):
                    a0 = a
                    while isinstance(a0, dict) and a0.get("k") in ("DropTemps", "Use", "Cast", "Type", "AddrOf"):
                        a0 = a0["x"]
                    if isinstance(a0, dict) and a0.get("k") == "Path" and (a0.get("res") or {}).get("res") == "Def" and (a0["res"].get("kind") in ("Fn", "AssocFn")) and a0["res"].get("path") in local_defs:
                        if not a0.get("callee"):
                            a0["callee"] = {"path": a0["res"]["path"], "name": a0["res"]["path"].split("::")[-1], "krate": a0["res"].get("krate"), "kind": a0["res"].get("kind")}
                        ar = arity_of(a0, n["method"], i, len(n["args"]))
                        if ar is None or ar > 2:
                            continue
                        params, args = [], []
                        for j in range(ar):
                            lid = fresh()
                            params.append({"sp": a0["sp"], "ty": "?", "k": "Binding", "local": lid, "name": "__fnarg%d" % j, "mode": "BindingMode(No, Not)"})
                            args.append({"id": fresh(), "sp": a0["sp"], "ty": "?", "k": "Path", "res": {"res": "Local", "local": lid, "name": "__fnarg%d" % j}})
                        call = {"id": fresh(), "sp": a0["sp"], "ty": "?", "k": "Call", "f": a0, "args": args, "callee": a0["callee"], "synthetic": True}
                        n["args"][i] = {"id": fresh(), "sp": a0["sp"], "ty": "closure", "k": "Closure", "def": "synthetic", "params": params, "body": call, "synthetic": True}
            for v in list(n.values()):
                visit(v)
        elif isinstance(n, list):
            for v in n:
                visit(v)

    for r in facts["fns"]:
        if "body" in r and not r.get("gen"):
            visit(r["body"])


def _generic_free(p):
    """Drop generic argument lists `::<...>` from a def path for comparison."""
    out = []
    depth = 0
    i = 0
    while i < len(p):
        ch = p[i]
        if ch == "<" and (i >= 2 and p[i - 2 : i] == "::"):
            # remove the preceding '::'
            if depth == 0:
                out = out[:-2]
            depth += 1
        elif ch == "<" and depth > 0:
            depth += 1
        elif ch == ">" and depth > 0:
            depth -= 1
        elif depth == 0:
            out.append(ch)
        i += 1
    return "".join(out)


# ---------------------------------------------------------------------------------------------


class Check:
    def __init__(self, prop_id, tier, program):
        self.prop = prop_id
        self.tier = tier
        self.prog = program
        self.instances = []
        self.notes = []
        self.t0 = time.time()
        self.rules = {}
        self._seen = set()

    def rule(self, rule_id, text):
        self.rules[rule_id] = text

    def ok(self, rule, key, where, detail=""):
        sig = (rule, key, where, detail)
        if sig in self._seen:
            return
        self._seen.add(sig)
        self.instances.append({"rule": rule, "key": key, "verdict": "ok", "where": where, "detail": detail})

    def bad(self, rule, key, where, detail="", witness=None):
        sig = (rule, key, where, detail)
        if sig in self._seen:
            return
        self._seen.add(sig)
        self.instances.append(
            {"rule": rule, "key": key, "verdict": "violation", "where": where, "detail": detail, "witness": witness}
        )

    def expect(self, cond, rule, key, where, detail_ok="", detail_bad=""):
        if cond:
            self.ok(rule, key, where, detail_ok)
        else:
            self.bad(rule, key, where, detail_bad or detail_ok)
        return cond

    def floor(self, rule, what, count, minimum):
        """Anti-vacuity: the rule must have matched at least the number of sites confirmed by hand."""
        key = "%s/FLOOR/%s" % (rule, what)
        if count < minimum:
            self.bad(rule, key, "-", "only %d %s found, at least %d confirmed on the reviewed tree: anchor lost" % (count, what, minimum))
        else:
            self.ok(rule, key, "-", "%d %s (floor %d)" % (count, what, minimum))

    def guarded(self, rule, fn):
        """Run a rule function; a missing anchor is a violation (fail closed) unless the named entity is
        gone from the tree altogether (see AnchorMissing)."""
        try:
            fn(self)
        except AnchorMissing as e:
            if getattr(e, "absent", False):
                self.undecided(rule, str(e).split(" (")[0])
            else:
                self.bad(rule, "%s/ANCHOR/%s" % (rule, str(e).split(" (")[0]), "-", "anchor missing: %s" % e)

    def undecided(self, rule, what):
        key = "%s/UNDECIDED/%s" % (rule, what)
        sig = (rule, key)
        if sig in self._seen:
            return
        self._seen.add(sig)
        self.instances.append({"rule": rule, "key": key, "verdict": "undecided", "where": "-", "detail": "%s of the reviewed tree does not exist in this tree (restructured): the rule was not evaluated" % what})

    def note(self, s):
        self.notes.append(s)


class Only:
    """view of a Check that keeps the instances of one rule whose key contains one of the given parts and
    files them under another rule name (a clause of a rule registered under another property)"""

    def __init__(self, check, rule, as_rule, parts):
        self._c, self._rule, self._as, self._parts = check, rule, as_rule, parts
        self.prog = check.prog
        self.tier = check.tier
        self.prop = getattr(check, "prop", None)

    def _keep(self, rule, key):
        return rule == self._rule and any(x in key for x in self._parts)

    def _k(self, key):
        return key.replace(self._rule, self._as, 1)

    def rule(self, rule_id, text):
        pass

    def note(self, s):
        pass

    def ok(self, rule, key, *a, **k):
        if self._keep(rule, key):
            self._c.ok(self._as, self._k(key), *a, **k)

    def bad(self, rule, key, *a, **k):
        if self._keep(rule, key):
            self._c.bad(self._as, self._k(key), *a, **k)

    def expect(self, cond, rule, key, *a, **k):
        if self._keep(rule, key):
            return self._c.expect(cond, self._as, self._k(key), *a, **k)
        return cond

    def floor(self, rule, what, *a, **k):
        if self._keep(rule, "/FLOOR/" + what):
            self._c.floor(self._as, what, *a, **k)

    def guarded(self, rule, fn):
        fn(self)

    def undecided(self, rule, what):
        self._c.undecided(self._as, what)


def load_known():
    p = os.path.join(VERIF, "known_findings.json")
    if not os.path.exists(p):
        return {"findings": [], "fixed": []}
    with open(p) as fh:
        return json.load(fh)


def finish(check, explanation, assumptions, not_decided, extra_cov=None):
    known = load_known()
    known_keys = {(k["property"], k["key"]): k for k in known.get("findings", [])}
    viol = []
    knownhits = []
    for inst in check.instances:
        if inst["verdict"] != "violation":
            continue
        kk = known_keys.get((check.prop, inst["key"]))
        if kk is not None:
            inst["verdict"] = "known"
            knownhits.append((inst, kk))
        else:
            viol.append(inst)
    seen = set()
    for inst, kk in knownhits:
        if inst["key"] in seen:
            continue
        seen.add(inst["key"])
        print("KNOWN-FINDING: property=%s %s [%s at %s]" % (check.prop, kk["what"], inst["key"], inst["where"]))
    os.makedirs(os.path.join(VERIF, ".build", "replay"), exist_ok=True)
    vseen = set()
    uniq = []
    for inst in viol:
        if inst["key"] not in vseen:
            vseen.add(inst["key"])
            uniq.append(inst)
    for i, inst in enumerate(uniq):
        rp = os.path.join(VERIF, ".build", "replay", "%s-%d.json" % (check.prop, i))
        with open(rp, "w") as fh:
            json.dump({"property": check.prop, "instance": inst, "rule_text": check.rules.get(inst["rule"], "")}, fh, indent=1)
        print("%s: rule %s: %s: %s" % (inst["where"], inst["rule"], inst["key"], inst["detail"]))
        print("VIOLATION property=%s replay=%s" % (check.prop, rp))
    und = [i for i in check.instances if i["verdict"] == "undecided"]
    for inst in und:
        print("UNDECIDED property=%s rule=%s: %s" % (check.prop, inst["rule"], inst["detail"]))
    n = len(check.instances)
    ok = sum(1 for i in check.instances if i["verdict"] == "ok")
    distinct = len({i["key"] for i in check.instances if i["where"] != "-"})
    samples = []
    by_rule = {}
    for inst in check.instances:
        by_rule.setdefault(inst["rule"], []).append(inst)
    for r, insts in sorted(by_rule.items()):
        for inst in insts[:3]:
            samples.append({"rule": r, "key": inst["key"], "verdict": inst["verdict"], "where": inst["where"], "detail": inst["detail"][:300]})
    cov = {
        "explanation": explanation,
        "obligations": n,
        "discharged": ok,
        "known_findings_matched": len(seen),
        "evaluations": n,
        "distinct_nontrivial": distinct,
        "rule": "one evaluation = one rule instance (site, path or obligation) found in the analysed build; distinct = distinct instance keys bound to a source location",
        "samples": samples,
        "rules": check.rules,
        "instances_per_rule": {r: len(v) for r, v in sorted(by_rule.items())},
        "checker_cmd": "python3 bin/check.py %s --tier %s" % (check.prop, check.tier),
        "trusted_base": [
            "rustc nightly front-end (HIR, type check, MIR) as fact source",
            "swc_ecma_parser for the JS syntax trees",
            "the default (generated) swc visitor visits every child of a node",
        ],
        "analysed": {
            "functions": len(check.prog.user_fns),
            "fact_hash": check.prog.facts["_meta"]["hash"],
            "facts_fresh": check.prog.facts["_meta"]["fresh"],
            "repo": check.prog.repo,
        },
        "not_decided": not_decided,
        "undecided_rules": [{"rule": i["rule"], "why": i["detail"]} for i in und],
        "notes": check.notes + (["functions analysed under their reviewed names after a rename (unique signature match): %s" % check.prog.renamed] if check.prog.renamed else []),
        "exhaustive": True,
    }
    if extra_cov:
        cov.update(extra_cov)
    ev = {
        "property_id": check.prop,
        "tier": check.tier,
        "seed": int(os.environ.get("VERIF_SEED", "0") or 0),
        "level": "other",
        "coverage": cov,
        "assumptions": assumptions,
        "wall_s": round(time.time() - check.t0, 3),
        "violations": len(viol),
    }
    if check.prog.repo == REPO:
        os.makedirs(os.path.join(VERIF, "evidence"), exist_ok=True)
        with open(os.path.join(VERIF, "evidence", "%s.json" % check.prop), "w") as fh:
            json.dump(ev, fh, indent=1)
    print(
        "%s %s: %d rule instances, %d ok, %d known findings, %d violations (%.1fs)"
        % (check.prop, check.tier, n, ok, len(seen), len(viol), time.time() - check.t0)
    )
    return 1 if viol else 0
