"""Path conditions for the JavaScript glue (ESTree as printed by swc): which conditions hold when a site
inside a function is reached, and the decision paths of small functions.  Conditions are turned into the
same propositional formulas as on the Rust side (boolform); what the rule's atomiser does not name is
an opaque atom, so an unknown extra condition is never proved away."""
import re

from . import boolform as BF
from . import jsast


def unparen(e):
    while isinstance(e, dict) and e.get("type") in ("ParenthesisExpression", "TsAsExpression", "TsNonNullExpression"):
        e = e["expression"]
    return e


def stmts_of(n):
    if n is None:
        return []
    if n.get("type") == "BlockStatement":
        return n.get("stmts") or []
    return [n]


def diverges(stmt):
    """does the statement always leave the enclosing function / loop iteration?"""
    t = stmt.get("type")
    if t in ("ReturnStatement", "ThrowStatement", "ContinueStatement", "BreakStatement"):
        return True
    if t == "BlockStatement":
        ss = stmt.get("stmts") or []
        return bool(ss) and diverges(ss[-1])
    if t == "IfStatement":
        return stmt.get("alternate") is not None and diverges(stmt["consequent"]) and diverges(stmt["alternate"])
    return False


def may_leave(stmt):
    """can control leave the enclosing block from inside the statement (return / throw / continue / break;
    nested functions do not count)?"""
    return _leaves_scoped(stmt)


def _leaves_scoped(n):
    if not isinstance(n, dict):
        return False
    t = n.get("type")
    if t in ("FunctionDeclaration", "FunctionExpression", "ArrowFunctionExpression", "ClassMethod", "Constructor"):
        return False
    if t in ("ReturnStatement", "ThrowStatement", "ContinueStatement", "BreakStatement"):
        return True
    for v in n.values():
        if isinstance(v, dict) and _leaves_scoped(v):
            return True
        if isinstance(v, list) and any(_leaves_scoped(x) for x in v):
            return True
    return False


def normal_formula(stmt, atomize, resolve=None):
    """formula under which the statement completes normally (control reaches what follows it)"""
    t = stmt.get("type")
    if t in ("ReturnStatement", "ThrowStatement", "ContinueStatement", "BreakStatement"):
        return BF.FALSE
    if t == "BlockStatement":
        return BF.conj([normal_formula(s, atomize, resolve) for s in stmt.get("stmts") or []])
    if t == "IfStatement":
        c = formula(stmt["test"], atomize, resolve)
        a = normal_formula(stmt["consequent"], atomize, resolve)
        b = normal_formula(stmt["alternate"], atomize, resolve) if stmt.get("alternate") is not None else BF.TRUE
        return BF.disj([BF.conj([c, a]), BF.conj([BF.neg(c), b])])
    if t == "TryStatement":
        a = normal_formula(stmt.get("block") or {"type": "BlockStatement", "stmts": []}, atomize, resolve)
        if stmt.get("handler") is None:
            return a
        b = normal_formula(stmt["handler"].get("body") or {"type": "BlockStatement", "stmts": []}, atomize, resolve)
        return BF.disj([a, BF.conj([BF.atom("<threw>"), b])])
    return BF.TRUE


class JsFn:
    def __init__(self, node):
        self.node = node
        body = node.get("body")
        if body is None and isinstance(node.get("function"), dict):
            body = node["function"].get("body")
        self.body = body if isinstance(body, dict) and body.get("type") == "BlockStatement" else None
        self._parents = {}
        for n in jsast.walk(node):
            for v in n.values():
                if isinstance(v, dict):
                    self._parents[id(v)] = n
                elif isinstance(v, list):
                    for x in v:
                        if isinstance(x, dict):
                            self._parents[id(x)] = n

    def parent(self, n):
        return self._parents.get(id(n))

    def ancestors(self, n):
        p = self.parent(n)
        while p is not None:
            yield p
            p = self.parent(p)

    def is_fn(self, n):
        return n.get("type") in ("FunctionDeclaration", "FunctionExpression", "ArrowFunctionExpression", "ClassMethod", "Constructor", "Function")

    def conds_at(self, site, through=False):
        """[(expr | ('threw',) | ('normal', stmt), truth)] that hold whenever site is evaluated: enclosing
        ifs, conditional / logical expressions, earlier statements of the enclosing blocks that may leave
        the function (guard clauses of any shape), catch handlers.  Stops at the innermost enclosing
        function unless through is set (then the conditions under which a callback is created count)."""
        out = []
        cur = site
        for par in self.ancestors(site):
            t = par.get("type")
            if t == "IfStatement":
                if par.get("consequent") is cur:
                    out.append((par["test"], True))
                elif par.get("alternate") is cur:
                    out.append((par["test"], False))
            elif t == "ConditionalExpression":
                if par.get("consequent") is cur:
                    out.append((par["test"], True))
                elif par.get("alternate") is cur:
                    out.append((par["test"], False))
            elif t == "BinaryExpression" and par.get("operator") in ("&&", "||") and par.get("right") is cur:
                out.append((par["left"], par["operator"] == "&&"))
            elif t == "CatchClause":
                out.append((("threw",), True))
            elif t == "BlockStatement":
                for s in par.get("stmts") or []:
                    if s is cur:
                        break
                    if may_leave(s):
                        out.append((("normal", s), True))
            if par is self.node or (not through and self.is_fn(par)):
                break
            cur = par
        out.reverse()
        return out

    def decision_paths(self):
        """[(conds, returned expression | None)] over if / else / early return / try-catch"""
        res = []

        def block(ss, conds, k):
            def go(i, conds):
                if i == len(ss):
                    return k(conds)
                s = ss[i]
                return stmt(s, conds, lambda c2: go(i + 1, c2))
            return go(0, conds)

        def stmt(s, conds, k):
            t = s.get("type")
            if t == "ReturnStatement":
                res.append((conds, s.get("argument")))
                return
            if t == "ThrowStatement":
                res.append((conds + [(("throws",), True)], None))
                return
            if t == "BlockStatement":
                return block(s.get("stmts") or [], conds, k)
            if t == "IfStatement":
                stmt(s["consequent"], conds + [(s["test"], True)], k)
                if s.get("alternate") is not None:
                    stmt(s["alternate"], conds + [(s["test"], False)], k)
                else:
                    k(conds + [(s["test"], False)])
                return
            if t == "TryStatement":
                block((s.get("block") or {}).get("stmts") or [], conds, k)
                if s.get("handler") is not None:
                    block(((s["handler"].get("body") or {}).get("stmts")) or [], conds + [(("threw",), True)], k)
                return
            return k(conds)

        block(stmts_of(self.body) if self.body else [], [], lambda c: res.append((c, None)))
        return res


def truthiness(e):
    """True / False / None for the value a return expression certainly has"""
    if e is None:
        return False
    e = unparen(e)
    t = e.get("type")
    if t in ("ObjectExpression", "ArrayExpression", "NewExpression", "FunctionExpression", "ArrowFunctionExpression"):
        return True
    if t == "NullLiteral":
        return False
    if t == "BooleanLiteral":
        return bool(e.get("value"))
    if t == "Identifier" and e.get("value") == "undefined":
        return False
    if t == "StringLiteral":
        return bool(e.get("value"))
    if t == "NumericLiteral":
        return bool(e.get("value"))
    return None


REN = [{}]  # parameter -> text of the argument at the call under consideration (set by jsguards.Reach)


def text(e, src=None):
    """short, position-free rendering of an expression (for opaque atoms and messages)"""
    e = unparen(e)
    if isinstance(e, tuple):
        return e[0]
    t = e.get("type")
    if t == "Identifier":
        return REN[0].get(e["value"], e["value"])
    if t in ("StringLiteral",):
        return repr(e["value"])
    if t in ("NumericLiteral", "BooleanLiteral"):
        return str(e["value"]).lower()
    if t == "NullLiteral":
        return "null"
    if t == "ThisExpression":
        return "this"
    if t == "MemberExpression":
        p = e["property"]
        if p.get("type") == "Computed":
            return "%s[%s]" % (text(e["object"]), text(p["expression"]))
        return "%s.%s" % (text(e["object"]), p.get("value", "?"))
    if t == "OptionalChainingExpression":
        return text(e["base"])
    if t == "CallExpression":
        return "%s(%s)" % (text(e["callee"]), ", ".join(text(a["expression"]) for a in e.get("arguments", [])))
    if t == "UnaryExpression":
        return "%s%s" % (e["operator"], text(e["argument"]))
    if t == "BinaryExpression":
        return "%s %s %s" % (text(e["left"]), e["operator"], text(e["right"]))
    if t == "RegExpLiteral":
        return "/%s/%s" % (e.get("pattern"), e.get("flags"))
    return t or "?"


def formula(e, atomize, resolve=None, depth=0):
    """formula of the truthiness of a JS expression; atomize(expr) -> formula | None; resolve(name) ->
    expression a const identifier is bound to (to look through `const x = <cond>`)"""
    if isinstance(e, tuple):
        if e[0] == "normal":
            return normal_formula(e[1], atomize, resolve)
        return BF.atom("<" + e[0] + ">")
    e = unparen(e)
    t = e.get("type")
    a = atomize(e)
    if a is not None:
        return a
    if t == "UnaryExpression" and e.get("operator") == "!":
        return BF.neg(formula(e["argument"], atomize, resolve, depth))
    if t == "BinaryExpression" and e.get("operator") == "&&":
        return BF.conj([formula(e["left"], atomize, resolve, depth), formula(e["right"], atomize, resolve, depth)])
    if t == "BinaryExpression" and e.get("operator") == "||":
        return BF.disj([formula(e["left"], atomize, resolve, depth), formula(e["right"], atomize, resolve, depth)])
    if t == "BinaryExpression" and e.get("operator") in ("!==", "!="):
        pos = dict(e, operator="===" if e["operator"] == "!==" else "==")
        return BF.neg(formula(pos, atomize, resolve, depth))
    if t == "BooleanLiteral":
        return ("const", bool(e["value"]))
    if t == "UnaryExpression" and e.get("operator") == "!" :
        return BF.neg(formula(e["argument"], atomize, resolve, depth))
    if t == "CallExpression" and jsast.ident_name(unparen(e["callee"].get("expression", e["callee"]) if isinstance(e.get("callee"), dict) else {})) == "Boolean" and len(e.get("arguments", [])) == 1:
        # Boolean(x): the truthiness of x
        return formula(e["arguments"][0]["expression"], atomize, resolve, depth)
    if t == "OptionalChainingExpression":
        # a?.b (a?.[k]) is truthy iff a is truthy and a.b is: the same two tests as `a && a.b`
        base = unparen(e.get("base") or {})
        if base.get("type") == "MemberExpression":
            return BF.conj([formula(base["object"], atomize, resolve, depth), formula(dict(base), atomize, resolve, depth)])
    if t == "Identifier" and resolve is not None and depth < 3:
        r = resolve(e["value"])
        if r is not None:
            return formula(r, atomize, resolve, depth + 1)
    return BF.atom("?" + text(e)[:80])


def premises(fn, site, atomize, resolve=None, extra=(), through=False):
    out = []
    for e, v in list(extra) + fn.conds_at(site, through):
        f = formula(e, atomize, resolve)
        out.append(f if v else BF.neg(f))
    return [f for f in out if f != BF.TRUE]


def const_resolver(fn):
    """name -> initialiser for `const` declarations of the function that are never reassigned"""
    inits = {}
    assigned = set()
    for n in jsast.walk(fn.node):
        if n.get("type") == "VariableDeclaration" and n.get("kind") == "const":
            for d in n.get("declarations", []):
                if d["id"].get("type") == "Identifier" and d.get("init") is not None:
                    inits[d["id"]["value"]] = d["init"]
        if n.get("type") == "AssignmentExpression" and n["left"].get("type") == "Identifier":
            assigned.add(n["left"]["value"])
    return lambda name: inits.get(name) if name not in assigned else None


def calls(node, callee_chain=None, name=None):
    """CallExpression / NewExpression nodes under node whose callee is the member chain / identifier"""
    out = []
    for n in jsast.walk(node):
        if n.get("type") not in ("CallExpression", "NewExpression"):
            continue
        c = n["callee"]
        c = c.get("expression", c) if c.get("type") == "ParenthesisExpression" else c
        ch = jsast.member_chain(c)
        if callee_chain is not None and ch == list(callee_chain):
            out.append(n)
        elif name is not None and ch and ch[-1] == name:
            out.append(n)
    return out
