"""EFFECT: counted effects (push/append/insert) on an out-parameter vector, per structural path."""
from . import hir

PUSHES = {"push": 1, "push_back": 1, "insert": 1}
MANY = "many"


def _add(a, b):
    if a == MANY or b == MANY:
        return MANY
    return a + b


class Effect:
    def __init__(self, prog):
        self.prog = prog
        self.memo = {}

    def fn_counts(self, fn, param_index, stack=()):
        """set of possible numbers of elements pushed to parameter #param_index by one call of fn"""
        key = (fn.def_path, param_index)
        if key in self.memo:
            return self.memo[key]
        if key in stack:
            return {"rec"}
        prm = fn.rec["params"][param_index]
        lids = [b["local"] for b in hir.pat_bindings(prm["pat"])]
        if not lids:
            return {0}
        res = {c for c, term in self.counts(fn, fn.body, lids[0], stack + (key,))}
        if "rec" not in str(res):
            self.memo[key] = res
        return res

    def counts(self, fn, n, lid, stack):
        """set of (count, terminated) for evaluating node n"""
        k = n.get("k")
        if k == "BlockExpr":
            return self.counts(fn, n["block"], lid, stack)
        if k == "Block":
            cur = {(0, False)}
            for s in n["stmts"]:
                e = s.get("init") if s["k"] == "Let" else s.get("e")
                if e is None:
                    continue
                cur = self._seq(cur, self.counts(fn, e, lid, stack))
            if "tail" in n:
                cur = self._seq(cur, self.counts(fn, n["tail"], lid, stack))
            return cur
        if k == "If":
            c = self.counts(fn, n["cond"], lid, stack)
            t = self.counts(fn, n["then"], lid, stack)
            e = self.counts(fn, n["else"], lid, stack) if "else" in n else {(0, False)}
            return self._seq(c, t | e)
        if k == "Match":
            c = self.counts(fn, n["scrut"], lid, stack)
            arms = set()
            for a in n["arms"]:
                x = self.counts(fn, a["body"], lid, stack)
                if "guard" in a:
                    x = self._seq(self.counts(fn, a["guard"], lid, stack), x)
                arms |= x
            return self._seq(c, arms or {(0, False)})
        if k == "Ret":
            sub = self.counts(fn, n["x"], lid, stack) if "x" in n else {(0, False)}
            return {(c, True) for c, _ in sub}
        if k == "Loop":
            sub = self.counts(fn, n["body"], lid, stack)
            if all(c == 0 for c, _ in sub):
                return {(0, False)}
            return {(("each", tuple(sorted({c for c, _ in sub}, key=str))), False)}
        if k == "Closure":
            return {(0, False)}
        if k in ("Call", "MethodCall"):
            return self._call(fn, n, lid, stack)
        cur = {(0, False)}
        for ch in hir.child_exprs(n):
            cur = self._seq(cur, self.counts(fn, ch, lid, stack))
        return cur

    def _seq(self, a, b):
        out = set()
        for c1, t1 in a:
            if t1:
                out.add((c1, True))
                continue
            for c2, t2 in b:
                out.add((self._sum(c1, c2), t2))
        return out

    def _sum(self, a, b):
        if isinstance(a, int) and isinstance(b, int):
            return a + b
        if a == 0:
            return b
        if b == 0:
            return a
        return ("sum", a, b)

    def _call(self, fn, n, lid, stack):
        args = hir.call_args(n)
        name = hir.callee_name(n) or n.get("method")
        cur = {(0, False)}
        closures = []
        for a in args:
            if hir.peel(a).get("k") == "Closure":
                closures.append(hir.peel(a))
            else:
                cur = self._seq(cur, self.counts(fn, a, lid, stack))
        hits = [i for i, a in enumerate(args) if (hir.local_of(a) or (None,))[0] == lid]
        if hits and hits[0] == 0 and name in PUSHES and n["k"] == "MethodCall":
            return self._seq(cur, {(1, False)})
        if hits and hits[0] == 0 and name in ("append", "extend", "extend_from_slice") and n["k"] == "MethodCall":
            return self._seq(cur, {(MANY, False)})
        if hits and hits[0] == 0 and name in ("clear", "truncate", "pop", "remove", "drain", "retain") and n["k"] == "MethodCall":
            return self._seq(cur, {(("removes", name), False)})
        g = self.prog.resolve_local(n)
        if hits and g is not None and g.body is not None:
            sub = set()
            for i in hits:
                if i < len(g.rec["params"]):
                    for c in self.fn_counts(g, i, stack):
                        sub.add((c, False))
            cur = self._seq(cur, sub or {(0, False)})
        elif hits and g is None and n["k"] == "MethodCall" and hits[0] != 0:
            cur = self._seq(cur, {(("escapes-to", name), False)})
        # closures passed to higher-order functions
        for cl in closures:
            body = self.counts(fn, cl["body"], lid, stack)
            body = {(c, False) for c, _ in body}
            if all(c == 0 for c, _ in body):
                continue
            if name in ("map_with_mut",):
                cur = self._seq(cur, body)
            elif name in ("for_each",):
                cur = self._seq(cur, {(("each", tuple(sorted({c for c, _ in body}, key=str))), False)})
            else:
                cur = self._seq(cur, {(("maybe", tuple(sorted({c for c, _ in body}, key=str)), name), False)})
        return cur
