"""TRAV: traversal completeness of visitor overrides (path enumeration over typed HIR)."""
import re

from . import hir
from .engine import AnchorMissing, _generic_free

VISIT_METHODS = {
    "visit_mut_with": ("with", "mut"),
    "visit_mut_children_with": ("children", "mut"),
    "visit_with": ("with", "ref"),
    "visit_children_with": ("children", "ref"),
}

WRAPPERS = ("std::boxed::Box<", "std::option::Option<", "std::vec::Vec<", "alloc::boxed::Box<", "core::option::Option<", "alloc::vec::Vec<")


def core_type(ty):
    """Strip references and Box/Option/Vec/slice wrappers from a printed type."""
    t = ty.strip()
    while True:
        if t.startswith("&mut "):
            t = t[5:]
            continue
        if t.startswith("&"):
            t = re.sub(r"^&('[a-z_]+ )?(mut )?", "", t)
            continue
        hit = False
        for w in WRAPPERS:
            if t.startswith(w) and t.endswith(">"):
                t = t[len(w) : -1]
                hit = True
                break
        if hit:
            continue
        if t.startswith("[") and t.endswith("]") and ";" not in t:
            t = t[1:-1]
            continue
        return t


def ignored_adt(path):
    """TypeScript-only and JSX-only node types are never produced by the parser configuration of the
    rewriter (Syntax::Es with jsx: false): they are not slots."""
    name = path.split("::")[-1]
    return name.startswith("Ts") or name.startswith("JSX")


class AdtGraph:
    def __init__(self, adts):
        self.adts = adts
        self._reach = {}

    def reaches(self, adt_path, targets):
        """True if a value of ADT `adt_path` can contain (own) a value of one of `targets`."""
        key = (adt_path, tuple(sorted(targets)))
        if key in self._reach:
            return self._reach[key]
        seen = set()
        stack = [adt_path]
        found = False
        while stack:
            a = stack.pop()
            if a in seen:
                continue
            seen.add(a)
            if a in targets:
                found = True
                break
            rec = self.adts.get(a)
            if not rec:
                continue
            if a != adt_path and ignored_adt(a):
                continue
            for v in rec["variants"]:
                for f in v["fields"]:
                    stack.extend(f["adts"])
        self._reach[key] = found
        return found

    def field_reaches(self, field, targets):
        return any(self.reaches(a, targets) for a in field["adts"] if not ignored_adt(a))

    def slots(self, adt_path, targets):
        """Slots of a node type: [(slot key tuple, field record, variant name|None)]"""
        rec = self.adts.get(adt_path)
        if not rec:
            return []
        out = []
        if rec["kind"] == "struct":
            for f in rec["variants"][0]["fields"]:
                if self.field_reaches(f, targets):
                    out.append((("field", f["name"]), f, None))
        else:
            for v in rec["variants"]:
                for f in v["fields"]:
                    if self.field_reaches(f, targets):
                        out.append((("variant", adt_path + "::" + v["name"], f["name"]), f, v["name"]))
        return out


class Path:
    __slots__ = ("conds", "effects", "term", "unknown")

    def __init__(self, conds=(), effects=(), term=False, unknown=()):
        self.conds = list(conds)
        self.effects = list(effects)
        self.term = term
        self.unknown = list(unknown)

    def then(self, other):
        return Path(self.conds + other.conds, self.effects + other.effects, other.term, self.unknown + other.unknown)


FULL_ITER = {"iter", "iter_mut", "into_iter", "enumerate", "by_ref", "as_ref", "as_mut", "as_slice", "clone", "cloned"}
ONCE_HOF = {"map_with_mut": 0, "map": 0, "and_then": 0, "map_or": 1, "map_or_else": 1, "then": 0, "unwrap_or_else": 0, "inspect": 0, "if_some": 0}
EACH_HOF = {"for_each": 0, "map": 0, "any": 0, "all": 0, "filter": 0, "find": 0}


class Traversal:
    """Analysis of one override function."""

    def __init__(self, prog, fn, graph, max_inline=3):
        self.prog = prog
        self.fn = fn
        self.graph = graph
        self.max_inline = max_inline
        params = fn.rec["params"]
        if len(params) < 2:
            raise AnchorMissing("override %s has no node parameter" % fn.def_path)
        self.node_ty = core_type(params[1]["ty"])
        self.is_slice = "[" in params[1]["ty"]
        self.visitor_ty = core_type(params[0]["ty"])

    # environment: local id -> access path (tuple of projections from the node parameter), or
    # the string 'VISITOR'
    def initial_env(self):
        env = {}
        params = self.fn.rec["params"]
        for b in hir.pat_bindings(params[0]["pat"]):
            env[b["local"]] = "VISITOR"
        for b, proj in hir.pat_binding_projs(params[1]["pat"]):
            env[b["local"]] = tuple(proj)
        return env

    def access_path(self, n, env):
        """Access path of expression n relative to the node parameter, or None / 'VISITOR'."""
        n = hir.peel(n)
        k = n.get("k")
        if k == "Path":
            r = n["res"]
            if r.get("res") == "Local":
                return env.get(r["local"])
            return None
        if k == "Field":
            b = self.access_path(n["x"], env)
            if b is None:
                return None
            if b == "VISITOR":
                return "VISITOR." + n["field"] if False else None
            return b + (("field", n["field"]),)
        if k == "Index":
            b = self.access_path(n["x"], env)
            if b is None or b == "VISITOR":
                return None
            return b + (("elem",),)
        if k == "MethodCall":
            m = n["method"]
            if m in hir.TRANSPARENT_METHODS or m in ("unwrap", "expect", "as_mut", "as_ref", "first", "last", "get", "get_mut"):
                b = self.access_path(n["recv"], env)
                if m in ("first", "last", "get", "get_mut") and b not in (None, "VISITOR"):
                    return b + (("elem-partial",),)
                return b
            # WithCtx deref etc: a method on the visitor returning a visitor-like guard
            if m in ("with_child_ctx", "with_ctx"):
                return self.access_path(n["recv"], env)
            return None
        if k == "Call":
            c = n.get("callee")
            if c and c["name"] in ("deref", "deref_mut") and n["args"]:
                return self.access_path(n["args"][0], env)
        return None

    def is_visitor_expr(self, n, env):
        n = hir.peel(n)
        if self.access_path(n, env) == "VISITOR":
            return True
        ty = n.get("aty") or n.get("ty") or ""
        return False

    def visitor_type_of(self, n):
        n0 = n
        n = hir.peel(n)
        ty = core_type(n.get("ty") or "")
        # WithCtx<'_, V> derefs to V
        m = re.match(r"^visitor::visitor_with_context::WithCtx<'[a-z_]+, (.*)>$", ty)
        if m:
            ty = m.group(1)
        return re.sub(r"<.*>$", "", ty)

    # ---- path enumeration -------------------------------------------------------------------
    def paths(self, n, env, depth=0):
        """All structural paths through n: list of Path (effects/conds relative to env)."""
        k = n.get("k")
        if k == "BlockExpr":
            return self.paths(n["block"], env, depth)
        if k == "Block":
            cur = [Path()]
            env = dict(env)
            for s in n["stmts"]:
                if s["k"] == "Let":
                    sub = self.paths(s["init"], env, depth) if "init" in s else [Path()]
                    if "init" in s:
                        ap = self.access_path(s["init"], env)
                        if ap is not None:
                            for b, proj in hir.pat_binding_projs(s["pat"]):
                                env[b["local"]] = ap if ap == "VISITOR" else ap + tuple(proj)
                    if "els" in s:
                        els = self.paths(s["els"], env, depth)
                        sub2 = []
                        ct_ = self._with_aps([{"t": "pat", "scrut": s.get("init"), "pat": s["pat"], "v": True}], env)
                        cf_ = self._with_aps([{"t": "pat", "scrut": s.get("init"), "pat": s["pat"], "v": False}], env)
                        for p in sub:
                            sub2.append(p.then(Path(conds=ct_)))
                            for q in els:
                                sub2.append(p.then(Path(conds=cf_)).then(q))
                        sub = sub2
                elif s["k"] in ("Expr", "Semi"):
                    sub = self.paths(s["e"], env, depth)
                else:
                    continue
                cur = self._seq(cur, sub)
            if "tail" in n:
                cur = self._seq(cur, self.paths(n["tail"], env, depth))
            return cur
        if k in ("DropTemps", "AddrOf", "Cast", "Type", "Use", "Field", "Repeat"):
            return self.paths(n["x"], env, depth)
        if k == "Unary":
            return self.paths(n["x"], env, depth)
        if k in ("Lit", "Path", "Continue", "ConstBlock"):
            return [Path()]
        if k == "Ret":
            sub = self.paths(n["x"], env, depth) if "x" in n else [Path()]
            return [p.then(Path(term=True)) for p in sub]
        if k == "Break":
            sub = self.paths(n["x"], env, depth) if "x" in n else [Path()]
            return [p.then(Path(conds=[{"t": "break"}])) for p in sub]
        if k == "If":
            out = []
            ct = self._with_aps(hir.split_cond(n["cond"], True), env)
            cf = self._with_aps(hir.split_cond(n["cond"], False), env)
            for pc in self.paths(n["cond"], env, depth):
                envt = dict(env)
                self._bind_letconds(n["cond"], envt)
                for pt in self.paths(n["then"], envt, depth):
                    out.append(pc.then(Path(conds=ct)).then(pt))
                if "else" in n:
                    for pe in self.paths(n["else"], env, depth):
                        out.append(pc.then(Path(conds=cf)).then(pe))
                else:
                    out.append(pc.then(Path(conds=cf)))
            return out
        if k == "LetCond":
            return self.paths(n["init"], env, depth)
        if k == "Binary":
            if n["op"] in ("And", "Or"):
                out = []
                for pl in self.paths(n["l"], env, depth):
                    # short circuit: right side may or may not run; effects in conditions are rare
                    for pr in self.paths(n["r"], env, depth):
                        out.append(pl.then(pr) if not any(e["kind"] != "call" for e in pr.effects) else pl.then(Path(unknown=["visit effect in short-circuit operand"])))
                return out
            return self._seq(self.paths(n["l"], env, depth), self.paths(n["r"], env, depth))
        if k in ("Assign", "AssignOp"):
            if hir.is_cancel_write(n):
                # the rewrite is refused here (in the reviewed tree: inside cancel_visit, which is read in line)
                return [Path(effects=[{"kind": "cancel", "node": n, "ap": None, "vty": None, "depth": depth, "in_fn": self.fn.def_path}])]
            return self._seq(self.paths(n["r"], env, depth), self.paths(n["l"], env, depth))
        if k == "Index":
            return self._seq(self.paths(n["x"], env, depth), self.paths(n["i"], env, depth))
        if k in ("Tup", "Array"):
            cur = [Path()]
            for e in n["elems"]:
                cur = self._seq(cur, self.paths(e, env, depth))
            return cur
        if k == "Struct":
            cur = [Path()]
            for f in n["fields"]:
                cur = self._seq(cur, self.paths(f["e"], env, depth))
            if "base" in n:
                cur = self._seq(cur, self.paths(n["base"], env, depth))
            return cur
        if k == "Match":
            return self._match_paths(n, env, depth)
        if k == "Loop":
            return self._loop_paths(n, env, depth)
        if k == "Closure":
            # a closure expression by itself has no effect; handled at the call that receives it
            return [Path()]
        if k in ("Call", "MethodCall"):
            return self._call_paths(n, env, depth)
        return [Path(unknown=["unsupported expression kind %s at %s" % (k, hir.loc(n))])]

    def _seq(self, first, second):
        out = []
        for p in first:
            if p.term:
                out.append(p)
            else:
                for q in second:
                    out.append(p.then(q))
        if len(out) > 4000:
            return [Path(unknown=["path explosion"])]
        return out

    def _with_aps(self, conds, env):
        out = []
        for c in conds:
            if c.get("t") == "pat" and c.get("scrut") is not None and "ap" not in c:
                c = dict(c)
                c["ap"] = self.access_path(c["scrut"], env)
            out.append(c)
        return out

    @staticmethod
    def feasible(path):
        """False if the path requires one value to match and not to match the same variant."""
        pos = set()
        neg = set()
        for c in path.conds:
            if c.get("t") == "pat" and c.get("ap") is not None:
                v = hir.pat_variant(c["pat"])
                if isinstance(v, str) and v != "_":
                    (pos if c["v"] else neg).add((c["ap"], v))
        if pos & neg:
            return False
        # two different variants of the same place
        byap = {}
        for ap, v in pos:
            byap.setdefault(ap, set()).add(v)
        return all(len(vs) == 1 for vs in byap.values())

    def _bind_letconds(self, cond, env):
        for e in hir.walk_no_closure(cond):
            if e.get("k") == "LetCond":
                ap = self.access_path(e["init"], env)
                if ap is not None:
                    for b, proj in hir.pat_binding_projs(e["pat"]):
                        env[b["local"]] = ap if ap == "VISITOR" else ap + tuple(proj)

    def _match_paths(self, n, env, depth):
        out = []
        scrut_paths = self.paths(n["scrut"], env, depth)
        ap = self.access_path(n["scrut"], env)
        prior = []
        is_try = n.get("source", "").startswith("TryDesugar")
        for a in n["arms"]:
            enva = dict(env)
            if ap is not None:
                for b, proj in hir.pat_binding_projs(a["pat"]):
                    enva[b["local"]] = ap if ap == "VISITOR" else ap + tuple(proj)
            conds = list(prior) + [{"t": "pat", "scrut": n["scrut"], "pat": a["pat"], "v": True, "ap": ap}]
            if "guard" in a:
                conds += hir.split_cond(a["guard"], True)
                self._bind_letconds(a["guard"], enva)
            for ps in scrut_paths:
                for pb in self.paths(a["body"], enva, depth):
                    out.append(ps.then(Path(conds=conds)).then(pb))
            if "guard" in a:
                prior.append({"t": "arm_not", "scrut": n["scrut"], "pat": a["pat"], "guard": a["guard"], "ap": ap})
            else:
                prior.append({"t": "pat", "scrut": n["scrut"], "pat": a["pat"], "v": False, "ap": ap})
        return out

    def _loop_paths(self, n, env, depth):
        # `for x in it { body }` desugars to loop { match next(&mut iter) { None => break, Some(x) => body } }
        if n.get("source", "").startswith("ForLoop"):
            body = n["body"]
            # find the inner match over Iterator::next
            for m in hir.walk_no_closure(body):
                if m.get("k") == "Match" and m.get("source", "").startswith("ForLoopDesugar"):
                    for a in m["arms"]:
                        if hir.pat_variant(a["pat"]).endswith("Some"):
                            # element binding: `for x in <iterable>` visits every element of a complete
                            # iteration exactly once
                            envb = dict(env)
                            src = None
                            par = self.fn.parent(n)
                            for _ in range(6):
                                if par is None:
                                    break
                                if par.get("k") == "Match" and par.get("source", "").startswith("ForLoopDesugar") and hir.is_call(hir.peel(par["scrut"])):
                                    it = hir.call_args(hir.peel(par["scrut"]))
                                    if it:
                                        src, complete = self._iter_source(it[0], env)
                                        if src is None:
                                            src = self.access_path(it[0], env)
                                            complete = True
                                    break
                                par = self.fn.parent(par)
                            if src not in (None, "VISITOR"):
                                for b, proj in hir.pat_binding_projs(a["pat"]):
                                    envb[b["local"]] = src + (("elem",) if complete else ("elem-partial",),) + tuple(proj[1:])
                                body_paths = self.paths(a["body"], envb, depth)
                                # like for_each: the body runs once per element
                                return [Path(p.conds + [{"t": "loop"}], p.effects, False, p.unknown) for p in body_paths]
                            return [p.then(Path(conds=[{"t": "loop"}])) for p in self.paths(a["body"], env, depth)] + [Path()]
            return [Path(unknown=["unrecognised for-loop desugaring at %s" % hir.loc(n)])]
        return [Path(unknown=["loop at %s" % hir.loc(n)])]

    def _iter_source(self, n, env):
        """For an iterator chain expression return (access path of the collection, complete?)"""
        n = hir.peel(n)
        complete = True
        while n.get("k") == "MethodCall":
            if n["method"] not in FULL_ITER:
                complete = False
            n = hir.peel(n["recv"])
        ap = self.access_path(n, env)
        return ap, complete

    def _call_paths(self, n, env, depth):
        args = hir.call_args(n)
        c = n.get("callee")
        name = c["name"] if c else (n.get("method") or "")
        # evaluate arguments first (closures are handled below)
        cur = [Path()]
        for a in args:
            if hir.peel(a).get("k") == "Closure":
                continue
            cur = self._seq(cur, self.paths(a, env, depth))
        effects = []
        unknown = []
        # 1. visit calls
        if name in VISIT_METHODS and c and c.get("krate", "").startswith("swc_ecma_visit") or (name in VISIT_METHODS and c and "swc_ecma_visit" in c["path"]):
            kind, mode = VISIT_METHODS[name]
            recv, vis = args[0], args[1] if len(args) > 1 else None
            ap = self.access_path(recv, env)
            vty = self.visitor_type_of(vis) if vis is not None else "?"
            recv_ty = core_type(hir.peel(recv).get("ty") or "")
            # a type can implement both traits: its read-only walk (Visit) is another visitor than its rewriting one
            effects.append({"kind": kind, "ap": ap, "vty": vty if mode == "mut" else vty + "/Visit", "mode": mode, "node": n, "recv_ty": recv_ty, "in_fn": self.fn.def_path})
            return self._seq(cur, [Path(effects=effects)])
        # 2. closures passed to known higher-order functions
        closures = [a for a in args if hir.peel(a).get("k") == "Closure"]
        if closures:
            sub = [Path()]
            for cl in closures:
                cl = hir.peel(cl)
                envc = dict(env)
                recv = args[0]
                if name == "for_each" or name in ("any", "all", "find", "filter", "map") and hir.peel(recv).get("k") == "MethodCall":
                    src, complete = self._iter_source(recv, env)
                    if src not in (None, "VISITOR") and cl["params"]:
                        for b, proj in hir.pat_binding_projs(cl["params"][0]):
                            envc[b["local"]] = src + (("elem",) if complete else ("elem-partial",),) + tuple(proj)
                elif name in ("map_with_mut", "map", "and_then", "map_or", "map_or_else", "inspect"):
                    ap = self.access_path(recv, env)
                    if ap is not None and cl["params"]:
                        for b, proj in hir.pat_binding_projs(cl["params"][0]):
                            envc[b["local"]] = ap if ap == "VISITOR" else ap + tuple(proj)
                body_paths = self.paths(cl["body"], envc, depth)
                if name in ("for_each", "map_with_mut"):
                    # closure runs exactly once (per element)
                    sub = self._seq(sub, [Path(p.conds + [{"t": "closure", "node": cl}], p.effects, False, p.unknown) for p in body_paths])
                else:
                    # may or may not run: effects inside do not count for coverage
                    for p in body_paths:
                        if p.effects:
                            pass
            return self._seq(cur, sub)
        # 3. inline crate-local callees that receive the node (or part of it) or the visitor
        g = self.prog.resolve_local(n)
        if g is not None:
            cur = self._seq(cur, [Path(effects=[{"kind": "call", "fn": g.def_path, "name": g.name, "node": n, "ap": None, "vty": None, "depth": depth, "in_fn": self.fn.def_path}])])
        if g is not None and g.body is not None and depth < self.max_inline:
            aps = [self.access_path(a, env) for a in args]
            if any(ap == "VISITOR" for ap in aps):
                envg = {}
                for i, prm in enumerate(g.rec["params"]):
                    if i < len(aps) and aps[i] is not None:
                        for b, proj in hir.pat_binding_projs(prm["pat"]):
                            envg[b["local"]] = aps[i] if aps[i] == "VISITOR" else aps[i] + tuple(proj)
                sub_tr = Traversal.__new__(Traversal)
                sub_tr.prog, sub_tr.fn, sub_tr.graph, sub_tr.max_inline = self.prog, g, self.graph, self.max_inline
                sub_tr.node_ty, sub_tr.is_slice, sub_tr.visitor_ty = self.node_ty, self.is_slice, self.visitor_ty
                sub = sub_tr.paths(g.body, envg, depth + 1)
                # a `return` inside the callee only ends the callee
                sub = [Path(p.conds + [{"t": "inlined", "fn": g.def_path}], p.effects, False, p.unknown) for p in sub]
                return self._seq(cur, sub)
        return cur

    # ---- coverage ---------------------------------------------------------------------------
    def variant_known(self, path, ap):
        """Enum variant established for access path ap by the conditions of this path."""
        for c in path.conds:
            if c.get("t") == "pat" and c.get("v") and c.get("ap") == ap:
                v = hir.pat_variant(c["pat"])
                if isinstance(v, str) and v not in ("_",):
                    return v
        return None

    def covered(self, path, ap, adt_path, targets, vty, depth=0):
        """Is everything of kind `targets` below access path ap (a value of ADT adt_path) visited
        by visitor vty on this path?  Returns (bool, list of missing slot descriptions)."""
        for e in path.effects:
            if e["kind"] == "call" or e["vty"] != vty:
                continue
            if e["ap"] == ap and e["kind"] in ("with", "children"):
                if ap == () and e["kind"] == "with":
                    continue
                return True, []
        if depth > 3:
            return False, [self.ap_str(ap)]
        rec = self.graph.adts.get(adt_path)
        if not rec:
            return False, [self.ap_str(ap)]
        slots = self.graph.slots(adt_path, targets)
        if rec["kind"] == "enum":
            v = self.variant_known(path, ap)
            if v is None:
                return False, [self.ap_str(ap)]
            slots = [s for s in slots if s[0][1] == v]
        missing = []
        for key, field, _ in slots:
            sub_ap = ap + (key,)
            sub_ty = core_type(field["ty"])
            ok, miss = self.covered(path, sub_ap, sub_ty, targets, vty, depth + 1)
            # elements of a collection visited one by one
            if not ok:
                ok2, _ = self.covered(path, sub_ap + (("elem",),), sub_ty, targets, vty, depth + 1)
                ok = ok2
            if not ok:
                missing += miss if miss else [self.ap_str(sub_ap)]
        return (not missing), missing

    def visitor_ty_name(self):
        """the identity of the visitor this override belongs to: its type, tagged `/Visit` for the read-only
        trait (a type can implement both Visit and VisitMut; the two walks are different visitors)"""
        base = re.sub(r"<.*>$", "", self.visitor_ty)
        tr = (self.fn.rec.get("impl_of_trait") or "").split("<")[0]
        return base + "/Visit" if tr.endswith("swc_ecma_visit::Visit") else base

    def ap_str(self, ap):
        if ap is None:
            return "?"
        s = core_type(self.node_ty).split("::")[-1]
        for p in ap:
            if p[0] == "field":
                s += "." + p[1]
            elif p[0] == "variant":
                s += "::" + p[1].split("::")[-1] + "." + p[2]
            elif p[0] == "elem":
                s += "[*]"
            else:
                s += "." + p[0]
        return s


def overrides_of(prog, visitor_suffix, trait_names=("swc_ecma_visit::VisitMut", "swc_ecma_visit::Visit")):
    out = []
    for f in prog.fns:
        if f.body is None:
            continue
        t = f.rec.get("impl_of_trait")
        if not t or _generic_free(t) not in trait_names:
            continue
        st = re.sub(r"<.*>$", "", f.rec.get("self_ty", ""))
        if st.endswith("::" + visitor_suffix) or st == visitor_suffix:
            out.append(f)
    return out


def path_conds_str(path):
    out = []
    for c in path.conds:
        if c.get("t") in ("closure", "inlined", "loop", "break"):
            continue
        out.append(hir.cond_str(c))
    return " && ".join(out) if out else "always"
