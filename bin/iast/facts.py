"""Build / load the fact files for a source tree (always the *current* working tree of /repo,
or a scratch copy for checker self-tests).  Nothing here runs the rewriter."""
import fcntl
import hashlib
import json
import os
import secrets
import shutil
import subprocess
import sys
import time

VERIF = os.path.dirname(os.path.dirname(os.path.dirname(os.path.abspath(__file__))))
REPO = os.environ.get("VERIF_REPO", "/repo")
BUILD = os.path.join(VERIF, ".build")
DRIVER = os.path.join(VERIF, "tools/iastfacts/target/debug/iastfacts")
JSFACTS = os.path.join(VERIF, "tools/jsfacts/target/debug/jsfacts")
TARGET = os.path.join(BUILD, "repo-target")

JS_FILES = ["main.js", "js/source-map/index.js", "js/stack-trace/index.js", "js/source-map/node_source_map.js"]


class FactsError(Exception):
    pass


def _sysroot_lib():
    out = subprocess.run(["rustc", "+nightly", "--print", "sysroot"], capture_output=True, text=True)
    if out.returncode != 0:
        raise FactsError("nightly toolchain not available: " + out.stderr)
    return os.path.join(out.stdout.strip(), "lib")


def tree_files(repo):
    files = []
    for root in ("src", "js"):
        base = os.path.join(repo, root)
        for dp, dn, fn in os.walk(base):
            dn.sort()
            for f in sorted(fn):
                if f.endswith((".rs", ".js")):
                    files.append(os.path.join(dp, f))
    for f in ("Cargo.toml", "Cargo.lock", "build.rs", "main.js", "tracer_logger.js"):
        p = os.path.join(repo, f)
        if os.path.exists(p):
            files.append(p)
    return files


def tree_hash(repo):
    h = hashlib.sha256()
    for p in tree_files(repo):
        h.update(os.path.relpath(p, repo).encode())
        h.update(b"\0")
        with open(p, "rb") as fh:
            h.update(fh.read())
        h.update(b"\0")
    # the driver itself is part of the key
    for tool in (DRIVER, JSFACTS):
        try:
            st = os.stat(tool)
            h.update(("%s:%d:%d" % (tool, st.st_size, int(st.st_mtime))).encode())
        except OSError:
            h.update(b"missing")
    return h.hexdigest()[:24]


def ensure_tools():
    if not (os.path.exists(DRIVER) and os.path.exists(JSFACTS)):
        r = subprocess.run([os.path.join(VERIF, "bin/setup.sh")], capture_output=True, text=True)
        if r.returncode != 0 or not os.path.exists(DRIVER):
            raise FactsError("setup failed:\n" + r.stdout[-2000:] + r.stderr[-2000:])


def _env_base():
    env = dict(os.environ)
    lib = _sysroot_lib()
    env["LD_LIBRARY_PATH"] = lib + (":" + env["LD_LIBRARY_PATH"] if env.get("LD_LIBRARY_PATH") else "")
    env["CARGO_NET_OFFLINE"] = "true"
    return env


def _run_cargo_facts(repo, out_json):
    """Run the driver under cargo against `repo` (the real build's flags)."""
    nonce = secrets.token_hex(8)
    env = _env_base()
    env.update(
        {
            "IASTFACTS_OUT": out_json,
            "IASTFACTS_NONCE": nonce,
            "RUSTC_WRAPPER": DRIVER,
            "RUSTFLAGS": "-Zmir-opt-level=0 -Awarnings -Zalways-encode-mir",
            "CARGO_TARGET_DIR": TARGET,
        }
    )
    os.makedirs(TARGET, exist_ok=True)
    with open(os.path.join(BUILD, "cargo.lock"), "w") as lock:
        fcntl.flock(lock, fcntl.LOCK_EX)
        # cargo's freshness cache would skip the driver: force the member to be re-checked
        fp = os.path.join(TARGET, "debug", ".fingerprint")
        if os.path.isdir(fp):
            for d in os.listdir(fp):
                if d.startswith("native-iast-rewriter-"):
                    shutil.rmtree(os.path.join(fp, d), ignore_errors=True)
        if os.path.exists(out_json):
            os.remove(out_json)
        r = subprocess.run(
            ["cargo", "+nightly", "check", "--offline", "--lib"],
            cwd=repo,
            env=env,
            capture_output=True,
            text=True,
        )
    if r.returncode != 0:
        raise FactsError("repository does not compile (cargo +nightly check --lib):\n" + r.stderr[-4000:])
    if not os.path.exists(out_json):
        raise FactsError("driver did not run (no fact file); stderr:\n" + r.stderr[-2000:])
    with open(out_json) as fh:
        facts = json.load(fh)
    if facts.get("nonce") != nonce:
        raise FactsError("stale fact file (nonce mismatch)")
    with open(os.path.join(BUILD, "invocation.json"), "w") as fh:
        json.dump({"argv": facts["argv"], "env": facts["env"], "cwd": facts["cwd"]}, fh)
    return facts


def _run_direct_facts(repo, out_json, ref):
    """Analyse a scratch copy by replaying the recorded rustc invocation (no cargo): used for the
    checker's self-test mutants, which share the dependency artefacts of the main target dir."""
    nonce = secrets.token_hex(8)
    env = _env_base()
    for k, v in ref["env"].items():
        env[k] = v.replace(ref["cwd"], repo) if isinstance(v, str) else v
    env["IASTFACTS_OUT"] = out_json
    env["IASTFACTS_NONCE"] = nonce
    outdir = os.path.join(repo, ".iastfacts-out")
    os.makedirs(outdir, exist_ok=True)
    argv = []
    skip = False
    src_argv = ref["argv"][1:]
    i = 0
    while i < len(src_argv):
        a = src_argv[i]
        if a == "--out-dir":
            argv += ["--out-dir", outdir]
            i += 2
            continue
        if a == "-C" and i + 1 < len(src_argv) and src_argv[i + 1].startswith("incremental="):
            i += 2
            continue
        if a.startswith("--error-format") or a.startswith("--json"):
            i += 1
            continue
        argv.append(a)
        i += 1
    r = subprocess.run([DRIVER] + argv, cwd=repo, env=env, capture_output=True, text=True)
    shutil.rmtree(outdir, ignore_errors=True)
    if r.returncode != 0:
        raise FactsError("scratch copy does not compile:\n" + r.stderr[-3000:])
    with open(out_json) as fh:
        facts = json.load(fh)
    if facts.get("nonce") != nonce:
        raise FactsError("stale fact file (nonce mismatch)")
    return facts


def _prologue_template(facts):
    """String literal(s) of generate_prefix_stmts, for the JS parser."""
    from . import hir

    # generate_prefix_stmts itself, then (the template moved into a helper) any other function of the crate
    fns = [fn for fn in facts["fns"] if "body" in fn and not fn.get("in_test") and not fn.get("gen")]
    for fn in sorted(fns, key=lambda fn: fn.get("name") != "generate_prefix_stmts"):
        lits = [n["lit"]["v"] for n in hir.walk(fn["body"]) if n.get("k") == "Lit" and n["lit"]["t"] == "str"]
        for s in lits:
            if "__CSI_METHODS__" in s and len(s) > 20:
                return s
    # a constant of the crate
    for c in facts.get("consts") or []:
        if c.get("gen") or "body" not in c:
            continue
        for n in hir.walk(c["body"]):
            if n.get("k") == "Lit" and n["lit"]["t"] == "str" and "__CSI_METHODS__" in n["lit"]["v"] and len(n["lit"]["v"]) > 20:
                return n["lit"]["v"]
    return None


def _run_jsfacts(repo, facts, out_json):
    args = [JSFACTS, out_json]
    for f in JS_FILES:
        args.append(os.path.join(repo, f))
    tpl = _prologue_template(facts)
    if tpl is not None:
        args += ["--inline", "prologue_template", tpl.replace("__CSI_METHODS__", "m1: noop, m2: noop")]
    r = subprocess.run(args, capture_output=True, text=True)
    if r.returncode != 0:
        raise FactsError("jsfacts failed: " + r.stderr[-2000:])
    with open(out_json) as fh:
        js = json.load(fh)
    # normalise keys to repo-relative names
    out = {}
    for k, v in js.items():
        out[os.path.relpath(k, repo) if k.startswith(repo) else k] = v
    out["__prologue_template_text"] = tpl
    return out


_cache = {}
# bump when the derivation of the JS-side facts changes (cached files of older versions are ignored)
JS_FACTS_VERSION = 3


def get_facts(repo=REPO, direct_ref=None):
    """Facts for the tree at `repo` as it is now.  Cached on disk by content hash of the tree so the
    sixteen checks share one compiler run; any edit of the tree gives a new hash."""
    ensure_tools()
    repo = os.path.abspath(repo)
    if repo != os.path.abspath(REPO) and direct_ref is None:
        # scratch copy (checker self-test): replay the recorded rustc invocation of the real build
        inv = os.path.join(BUILD, "invocation.json")
        if not os.path.exists(inv):
            _run_cargo_facts(REPO, os.path.join(BUILD, "facts", "ref.tmp.json"))
        with open(inv) as fh:
            direct_ref = json.load(fh)
    h = tree_hash(repo)
    key = (repo, h)
    if key in _cache:
        return _cache[key]
    os.makedirs(os.path.join(BUILD, "facts"), exist_ok=True)
    path = os.path.join(BUILD, "facts", h + ".json")
    jspath = os.path.join(BUILD, "facts", h + ".js%d.json" % JS_FACTS_VERSION)
    t0 = time.time()
    with open(os.path.join(BUILD, "facts.lock"), "w") as lock:
        fcntl.flock(lock, fcntl.LOCK_EX if direct_ref is None else LOCK_SH)
        fresh = False
        facts = js = None
        if os.path.exists(path):
            try:
                with open(path) as fh:
                    facts = json.load(fh)
                if os.path.exists(jspath):
                    with open(jspath) as fh:
                        js = json.load(fh)
            except Exception:
                facts = js = None
        if facts is not None and js is None:
            # the Rust facts are there, the JS side (or the way it is derived) is newer: redo only that
            js = _run_jsfacts(repo, facts, jspath + ".tmp.%d" % os.getpid())
            with open(jspath, "w") as fh:
                json.dump(js, fh)
            try:
                os.remove(jspath + ".tmp.%d" % os.getpid())
            except OSError:
                pass
        if facts is None:
            tmp = path + ".tmp.%d" % os.getpid()
            if direct_ref is None:
                facts = _run_cargo_facts(repo, tmp)
            else:
                facts = _run_direct_facts(repo, tmp, direct_ref)
            js = _run_jsfacts(repo, facts, jspath + ".tmp.%d" % os.getpid())
            os.replace(tmp, path)
            with open(jspath, "w") as fh:
                json.dump(js, fh)
            try:
                os.remove(jspath + ".tmp.%d" % os.getpid())
            except OSError:
                pass
            fresh = True
    facts["js"] = js
    facts["_meta"] = {"hash": h, "repo": repo, "fresh": fresh, "build_s": round(time.time() - t0, 2), "path": path}
    _cache[key] = facts
    return facts


LOCK_SH = fcntl.LOCK_SH


def prune_cache(keep=200):
    d = os.path.join(BUILD, "facts")
    if not os.path.isdir(d):
        return
    files = sorted((os.path.getmtime(os.path.join(d, f)), f) for f in os.listdir(d))
    for _, f in files[:-keep]:
        try:
            os.remove(os.path.join(d, f))
        except OSError:
            pass
