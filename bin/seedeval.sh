#!/bin/bash
# usage: seedeval.sh <Cxx> <dir with patch.diff [demo.diff]>   -- confirm a seeded change and run all checks against it
# 1. confirm in a scratch worktree (suite passes with the change, demo fails with / passes without)
# 2. apply to /repo, run every quick check, undo
set -u
ID=$1; DIR=$2; WT=/tmp/seedeval-wt
cd /repo
git worktree remove --force $WT 2>/dev/null
git worktree add -q --detach $WT HEAD || exit 3
export CARGO_NET_OFFLINE=true CARGO_TARGET_DIR=/tmp/probe-target
cd $WT
echo "== confirm: suite with the change"
git apply $DIR/patch.diff || { echo "patch does not apply"; exit 3; }
cargo test --workspace --no-fail-fast --offline 2>&1 | grep -E "^test result|^error" | head -3
if [ -f $DIR/demo.diff ]; then
  echo "== confirm: demo with the change (expected to fail)"
  git apply $DIR/demo.diff || echo "demo does not apply"
  cargo test --workspace --no-fail-fast --offline 2>&1 | grep -E "^test result|FAILED|failed" | head -8
  echo "== confirm: demo without the change (expected to pass)"
  git apply -R $DIR/patch.diff
  cargo test --workspace --no-fail-fast --offline 2>&1 | grep -E "^test result" | head -3
fi
cd /repo; git worktree remove --force $WT
echo "== checks against the change applied to /repo"
git -C /repo apply $DIR/patch.diff || { echo "patch does not apply to /repo"; exit 3; }
cd /verif
for c in C01 C02 C03 C04 C05 C06 C07 C08 C09 C10 C11 C12 C13 C14 C15 C16; do
  out=$(python3 bin/check.py $c 2>&1)
  rc=$?
  if [ $rc -ne 0 ]; then echo "--- $c exit $rc"; echo "$out" | grep -v "^KNOWN-FINDING" | grep ": rule " | cut -c1-260 | head -6; fi
done
git -C /repo checkout -- . ; git -C /repo clean -fdq -- src js
git -C /repo status --short | head -3
echo "== done"
