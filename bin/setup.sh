#!/bin/bash
# Build the verification tools offline from files on disk only, and warm the fact cache.
set -e
cd "$(dirname "$0")/.."
export CARGO_NET_OFFLINE=true
(cd tools/iastfacts && cargo build --offline 2>&1 | tail -3)
(cd tools/jsfacts && cargo build --offline 2>&1 | tail -3)
test -x tools/iastfacts/target/debug/iastfacts
test -x tools/jsfacts/target/debug/jsfacts
# warm: compile the dependencies of /repo once under the driver and extract facts for the current tree
python3 bin/check.py --warm
