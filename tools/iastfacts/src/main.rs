// iastfacts: a rustc_private driver that behaves as rustc for every crate, and for the crate
// named by IASTFACTS_CRATE (default native_iast_rewriter) additionally dumps typed-HIR, MIR,
// ADT-graph and type-query facts as one JSON file (IASTFACTS_OUT).  It is used as RUSTC_WRAPPER.
#![feature(rustc_private)]
#![allow(clippy::all)]

extern crate rustc_abi;
extern crate rustc_ast;
extern crate rustc_data_structures;
extern crate rustc_driver;
extern crate rustc_hir;
extern crate rustc_interface;
extern crate rustc_middle;
extern crate rustc_session;
extern crate rustc_span;

mod adts;
mod hirdump;
mod json;
mod mirdump;

use json::J;
use rustc_driver::Compilation;
use rustc_hir::def::DefKind;
use rustc_interface::interface::Compiler;
use rustc_middle::ty::TyCtxt;

struct Facts {
    out: String,
    nonce: String,
    argv: Vec<String>,
}

impl rustc_driver::Callbacks for Facts {
    fn after_analysis<'tcx>(&mut self, _c: &Compiler, tcx: TyCtxt<'tcx>) -> Compilation {
        let mut root = J::obj();
        root.set("nonce", J::s(self.nonce.clone()));
        root.set("crate", J::s(tcx.crate_name(rustc_hir::def_id::LOCAL_CRATE).to_string()));
        root.set("rustc", J::s(option_env!("CFG_VERSION").unwrap_or("nightly")));
        // the exact invocation, so that scratch copies (mutants) can be analysed without cargo
        root.set("argv", J::Arr(self.argv.iter().map(|a| J::s(a.clone())).collect()));
        root.set(
            "cwd",
            J::s(std::env::current_dir().map(|p| p.to_string_lossy().to_string()).unwrap_or_default()),
        );
        let mut env = J::obj();
        for (k, v) in std::env::vars() {
            if k.starts_with("CARGO") || k == "OUT_DIR" {
                env.set(k, J::s(v));
            }
        }
        root.set("env", env);

        let mut fns = Vec::new();
        let mut consts = Vec::new();
        for ldid in tcx.hir_body_owners() {
            let kind = tcx.def_kind(ldid);
            match kind {
                DefKind::Fn | DefKind::AssocFn => {
                    fns.push(hirdump::dump_fn(tcx, ldid));
                }
                DefKind::Closure => {
                    // dumped inline in the parent's HIR; MIR separately
                    fns.push(hirdump::dump_closure_stub(tcx, ldid));
                }
                DefKind::Const { .. } | DefKind::Static { .. } | DefKind::AssocConst { .. } => {
                    consts.push(hirdump::dump_const(tcx, ldid));
                }
                _ => {}
            }
        }
        root.set("fns", J::Arr(fns));
        root.set("consts", J::Arr(consts));
        root.set("impls", hirdump::dump_impls(tcx));
        root.set("adts", adts::dump_adts(tcx));
        root.set("typeq", adts::dump_typeq(tcx));
        root.set("default_visitors", adts::dump_default_visitors(tcx));

        let mut s = String::new();
        root.write(&mut s);
        std::fs::write(&self.out, s).expect("iastfacts: cannot write facts");
        Compilation::Continue
    }
}

struct Plain;
impl rustc_driver::Callbacks for Plain {}

fn main() {
    let mut args: Vec<String> = std::env::args().collect();
    // RUSTC_WRAPPER protocol: argv[1] is the path of the real rustc
    if args.len() > 1 && (args[1].ends_with("rustc") || args[1].contains("/rustc")) {
        args.remove(1);
    }
    // ahash 0.7.6's build script asks for `--cfg feature="stdsimd"` on nightly (E0635): drop it
    let mut filtered = Vec::new();
    let mut i = 0;
    while i < args.len() {
        if args[i] == "--cfg" && i + 1 < args.len() && args[i + 1] == "feature=\"stdsimd\"" {
            i += 2;
            continue;
        }
        filtered.push(args[i].clone());
        i += 1;
    }
    let want = std::env::var("IASTFACTS_CRATE").unwrap_or_else(|_| "native_iast_rewriter".into());
    let mut crate_name = None;
    for (i, a) in filtered.iter().enumerate() {
        if a == "--crate-name" && i + 1 < filtered.len() {
            crate_name = Some(filtered[i + 1].clone());
        }
    }
    let out = std::env::var("IASTFACTS_OUT").ok();
    let is_target = crate_name.as_deref() == Some(want.as_str()) && out.is_some();
    if is_target {
        let mut cb = Facts {
            out: out.unwrap(),
            nonce: std::env::var("IASTFACTS_NONCE").unwrap_or_default(),
            argv: filtered.clone(),
        };
        rustc_driver::run_compiler(&filtered, &mut cb);
    } else {
        rustc_driver::run_compiler(&filtered, &mut Plain);
    }
}
