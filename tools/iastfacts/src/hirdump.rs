// Typed HIR dump: every expression with its type, resolved callee / path resolution, patterns.
use crate::json::J;
use crate::mirdump;
use rustc_hir as hir;
use rustc_hir::def::{CtorOf, DefKind, Res};
use rustc_hir::def_id::{DefId, LocalDefId};
use rustc_middle::ty::print::with_no_trimmed_paths;
use rustc_middle::ty::{self, GenericArgsRef, Ty, TyCtxt, TypeckResults};
use rustc_span::Span;

pub fn ty_str<'tcx>(ty: Ty<'tcx>) -> String {
    with_no_trimmed_paths!(format!("{}", ty))
}

pub fn path_str(tcx: TyCtxt<'_>, did: DefId) -> String {
    with_no_trimmed_paths!(tcx.def_path_str(did))
}

pub fn span_j(tcx: TyCtxt<'_>, sp: Span) -> J {
    let sm = tcx.sess.source_map();
    let cs = sp.source_callsite();
    let lo = sm.lookup_char_pos(cs.lo());
    let hi = sm.lookup_char_pos(cs.hi());
    let file = match &lo.file.name {
        rustc_span::FileName::Real(r) => r
            .local_path()
            .map(|p| p.to_string_lossy().to_string())
            .unwrap_or_else(|| format!("{:?}", r)),
        other => format!("{:?}", other),
    };
    J::s(format!(
        "{}:{}:{}-{}:{}",
        file,
        lo.line,
        lo.col.0 + 1,
        hi.line,
        hi.col.0 + 1
    ))
}

pub fn callee_j<'tcx>(
    tcx: TyCtxt<'tcx>,
    owner: DefId,
    did: DefId,
    args: Option<GenericArgsRef<'tcx>>,
) -> J {
    let mut o = J::obj();
    o.set("path", J::s(path_str(tcx, did)));
    o.set("name", J::s(tcx.item_name(did).to_string()));
    o.set("krate", J::s(tcx.crate_name(did.krate).to_string()));
    o.set("kind", J::s(format!("{:?}", tcx.def_kind(did))));
    if let Some(assoc) = tcx.opt_associated_item(did) {
        match assoc.container {
            ty::AssocContainer::Trait => {
                let tr = tcx.parent(did);
                o.set("trait", J::s(path_str(tcx, tr)));
            }
            ty::AssocContainer::TraitImpl(_) => {
                let imp = tcx.parent(did);
                let tref = tcx.impl_trait_ref(imp);
                o.set(
                    "impl_of_trait",
                    J::s(path_str(tcx, tref.skip_binder().def_id)),
                );
                o.set(
                    "self_ty",
                    J::s(ty_str(tcx.type_of(imp).instantiate_identity().skip_norm_wip())),
                );
            }
            ty::AssocContainer::InherentImpl => {
                let imp = tcx.parent(did);
                o.set(
                    "self_ty",
                    J::s(ty_str(tcx.type_of(imp).instantiate_identity().skip_norm_wip())),
                );
            }
        }
    }
    if let Some(a) = args {
        let strs: Vec<J> = a
            .iter()
            .map(|g| J::s(with_no_trimmed_paths!(format!("{}", g))))
            .collect();
        o.set("gargs", J::Arr(strs));
        // try to resolve trait methods to the implementation that will run
        let env = ty::TypingEnv::post_analysis(tcx, owner);
        let has_params = a.iter().any(|g| {
            use rustc_middle::ty::TypeVisitableExt;
            g.has_param() || g.has_infer()
        });
        if !has_params || tcx.opt_associated_item(did).is_some() {
            if let Ok(Some(inst)) = std::panic::catch_unwind(std::panic::AssertUnwindSafe(|| {
                ty::Instance::try_resolve(tcx, env, did, a).ok().flatten()
            })) {
                let rd = inst.def_id();
                if rd != did {
                    o.set("resolved", J::s(path_str(tcx, rd)));
                    o.set("resolved_krate", J::s(tcx.crate_name(rd.krate).to_string()));
                }
            }
        }
    }
    o
}

struct D<'a, 'tcx> {
    tcx: TyCtxt<'tcx>,
    tr: &'a TypeckResults<'tcx>,
    owner: DefId,
    next: u32,
}

impl<'a, 'tcx> D<'a, 'tcx> {
    fn id(&mut self) -> J {
        self.next += 1;
        J::Int(self.next as i128)
    }

    fn res_j(&self, res: Res) -> J {
        let mut o = J::obj();
        match res {
            Res::Local(hid) => {
                o.set("res", J::s("Local"));
                o.set("local", J::Int(hid.local_id.as_u32() as i128));
                o.set("name", J::s(self.tcx.hir_name(hid).to_string()));
            }
            Res::Def(kind, did) => {
                o.set("res", J::s("Def"));
                o.set("kind", J::s(format!("{:?}", kind)));
                o.set("path", J::s(path_str(self.tcx, did)));
                o.set("krate", J::s(self.tcx.crate_name(did.krate).to_string()));
                match kind {
                    DefKind::Ctor(of, ck) => {
                        let parent = self.tcx.parent(did);
                        o.set("ctor_of", J::s(match of {
                            CtorOf::Struct => "Struct",
                            CtorOf::Variant => "Variant",
                        }));
                        o.set("ctor_kind", J::s(format!("{:?}", ck)));
                        o.set("ctor_path", J::s(path_str(self.tcx, parent)));
                    }
                    _ => {}
                }
            }
            Res::SelfCtor(did) => {
                o.set("res", J::s("SelfCtor"));
                o.set("path", J::s(path_str(self.tcx, did)));
            }
            Res::SelfTyAlias { alias_to, .. } => {
                o.set("res", J::s("SelfTyAlias"));
                o.set("path", J::s(path_str(self.tcx, alias_to)));
            }
            other => {
                o.set("res", J::s(format!("{:?}", other)));
            }
        }
        o
    }

    fn qpath_name(&self, q: &hir::QPath<'tcx>) -> String {
        match q {
            hir::QPath::Resolved(_, p) => p
                .segments
                .iter()
                .map(|s| s.ident.to_string())
                .collect::<Vec<_>>()
                .join("::"),
            hir::QPath::TypeRelative(_, seg) => format!("<_>::{}", seg.ident),
        }
    }

    fn pat(&mut self, p: &hir::Pat<'tcx>) -> J {
        let mut o = J::obj();
        o.set("sp", span_j(self.tcx, p.span));
        if let Some(t) = self.tr.node_type_opt(p.hir_id) {
            o.set("ty", J::s(ty_str(t)));
        }
        match &p.kind {
            hir::PatKind::Wild => {
                o.set("k", J::s("Wild"));
            }
            hir::PatKind::Binding(mode, hid, ident, sub) => {
                o.set("k", J::s("Binding"));
                o.set("local", J::Int(hid.local_id.as_u32() as i128));
                o.set("name", J::s(ident.to_string()));
                o.set("mode", J::s(format!("{:?}", mode)));
                if let Some(s) = sub {
                    let sj = self.pat(s);
                    o.set("sub", sj);
                }
            }
            hir::PatKind::Struct(q, fields, _) => {
                o.set("k", J::s("Struct"));
                let res = self.tr.qpath_res(q, p.hir_id);
                o.set("res", self.res_j(res));
                o.set("qname", J::s(self.qpath_name(q)));
                let mut fs = Vec::new();
                for f in fields.iter() {
                    let pj = self.pat(f.pat);
                    fs.push(J::obj().with("name", J::s(f.ident.to_string())).with("pat", pj));
                }
                o.set("fields", J::Arr(fs));
            }
            hir::PatKind::TupleStruct(q, pats, _) => {
                o.set("k", J::s("TupleStruct"));
                let res = self.tr.qpath_res(q, p.hir_id);
                o.set("res", self.res_j(res));
                o.set("qname", J::s(self.qpath_name(q)));
                let ps: Vec<J> = pats.iter().map(|x| self.pat(x)).collect();
                o.set("pats", J::Arr(ps));
            }
            hir::PatKind::Or(pats) => {
                o.set("k", J::s("Or"));
                let ps: Vec<J> = pats.iter().map(|x| self.pat(x)).collect();
                o.set("pats", J::Arr(ps));
            }
            hir::PatKind::Tuple(pats, _) => {
                o.set("k", J::s("Tuple"));
                let ps: Vec<J> = pats.iter().map(|x| self.pat(x)).collect();
                o.set("pats", J::Arr(ps));
            }
            hir::PatKind::Slice(before, mid, after) => {
                o.set("k", J::s("Slice"));
                let mut ps: Vec<J> = before.iter().map(|x| self.pat(x)).collect();
                o.set("n_before", J::Int(before.len() as i128));
                o.set("rest", J::Bool(mid.is_some()));
                if let Some(m) = mid {
                    let mj = self.pat(m);
                    o.set("rest_pat", mj);
                }
                let mut af: Vec<J> = after.iter().map(|x| self.pat(x)).collect();
                o.set("n_after", J::Int(after.len() as i128));
                ps.append(&mut af);
                o.set("pats", J::Arr(ps));
            }
            hir::PatKind::Box(inner) => {
                o.set("k", J::s("Box"));
                let ij = self.pat(inner);
                o.set("inner", ij);
            }
            hir::PatKind::Deref(inner) => {
                o.set("k", J::s("Deref"));
                let ij = self.pat(inner);
                o.set("inner", ij);
            }
            hir::PatKind::Ref(inner, ..) => {
                o.set("k", J::s("Ref"));
                let ij = self.pat(inner);
                o.set("inner", ij);
            }
            hir::PatKind::Expr(pe) => match &pe.kind {
                hir::PatExprKind::Path(q) => {
                    o.set("k", J::s("Path"));
                    let res = self.tr.qpath_res(q, pe.hir_id);
                    o.set("res", self.res_j(res));
                    o.set("qname", J::s(self.qpath_name(q)));
                }
                hir::PatExprKind::Lit { lit, negated } => {
                    o.set("k", J::s("Lit"));
                    o.set("lit", lit_j(&lit.node));
                    o.set("neg", J::Bool(*negated));
                }
                #[allow(unreachable_patterns)]
                _ => {
                    o.set("k", J::s("PatExprOther"));
                }
            },
            hir::PatKind::Guard(inner, cond) => {
                o.set("k", J::s("Guard"));
                let ij = self.pat(inner);
                o.set("inner", ij);
                let cj = self.expr(cond);
                o.set("cond", cj);
            }
            other => {
                o.set("k", J::s("Other"));
                o.set("dbg", J::s(format!("{:?}", std::mem::discriminant(other))));
            }
        }
        o
    }

    fn block(&mut self, b: &hir::Block<'tcx>) -> J {
        let mut o = J::obj();
        o.set("k", J::s("Block"));
        o.set("id", self.id());
        o.set("sp", span_j(self.tcx, b.span));
        o.set("unsafe", J::Bool(!matches!(b.rules, hir::BlockCheckMode::DefaultBlock)));
        let mut stmts = Vec::new();
        for s in b.stmts.iter() {
            let mut so = J::obj();
            so.set("sp", span_j(self.tcx, s.span));
            match &s.kind {
                hir::StmtKind::Let(l) => {
                    so.set("k", J::s("Let"));
                    let pj = self.pat(l.pat);
                    so.set("pat", pj);
                    if let Some(init) = l.init {
                        let ij = self.expr(init);
                        so.set("init", ij);
                    }
                    if let Some(els) = l.els {
                        let ej = self.block(els);
                        so.set("els", ej);
                    }
                }
                hir::StmtKind::Expr(e) => {
                    so.set("k", J::s("Expr"));
                    let ej = self.expr(e);
                    so.set("e", ej);
                }
                hir::StmtKind::Semi(e) => {
                    so.set("k", J::s("Semi"));
                    let ej = self.expr(e);
                    so.set("e", ej);
                }
                hir::StmtKind::Item(_) => {
                    so.set("k", J::s("Item"));
                }
            }
            stmts.push(so);
        }
        o.set("stmts", J::Arr(stmts));
        if let Some(e) = b.expr {
            let ej = self.expr(e);
            o.set("tail", ej);
        }
        o
    }

    fn expr(&mut self, e: &hir::Expr<'tcx>) -> J {
        let mut o = J::obj();
        o.set("id", self.id());
        o.set("sp", span_j(self.tcx, e.span));
        if e.span.from_expansion() {
            o.set("exp", J::Bool(true));
            if let Some(m) = e.span.ctxt().outer_expn_data().macro_def_id {
                o.set("macro", J::s(path_str(self.tcx, m)));
            } else {
                o.set("desugar", J::s(format!("{:?}", e.span.ctxt().outer_expn_data().kind)));
            }
        }
        if let Some(t) = self.tr.expr_ty_opt(e) {
            o.set("ty", J::s(ty_str(t)));
        }
        let adj = self.tr.expr_adjustments(e);
        if !adj.is_empty() {
            let a: Vec<J> = adj
                .iter()
                .map(|a| {
                    J::s(match &a.kind {
                        ty::adjustment::Adjust::Deref(ty::adjustment::DerefAdjustKind::Builtin) => "Deref".to_string(),
                        ty::adjustment::Adjust::Deref(_) => "DerefOverloaded".to_string(),
                        ty::adjustment::Adjust::Borrow(b) => format!("Borrow({:?})", b),
                        ty::adjustment::Adjust::Pointer(p) => format!("Pointer({:?})", p),
                        other => format!("{:?}", other),
                    })
                })
                .collect();
            o.set("adj", J::Arr(a));
            o.set("aty", J::s(ty_str(self.tr.expr_ty_adjusted(e))));
        }
        match &e.kind {
            hir::ExprKind::Call(f, args) => {
                o.set("k", J::s("Call"));
                let fj = self.expr(f);
                // resolved callee when the function expression is a path to a fn item
                if let ty::FnDef(did, ga) = self.tr.expr_ty(f).kind() {
                    o.set("callee", callee_j(self.tcx, self.owner, *did, Some(ga)));
                }
                o.set("f", fj);
                let aj: Vec<J> = args.iter().map(|a| self.expr(a)).collect();
                o.set("args", J::Arr(aj));
            }
            hir::ExprKind::MethodCall(seg, recv, args, _) => {
                o.set("k", J::s("MethodCall"));
                o.set("method", J::s(seg.ident.to_string()));
                if let Some(did) = self.tr.type_dependent_def_id(e.hir_id) {
                    let ga = self.tr.node_args(e.hir_id);
                    o.set("callee", callee_j(self.tcx, self.owner, did, Some(ga)));
                }
                let rj = self.expr(recv);
                o.set("recv", rj);
                let aj: Vec<J> = args.iter().map(|a| self.expr(a)).collect();
                o.set("args", J::Arr(aj));
            }
            hir::ExprKind::Tup(es) => {
                o.set("k", J::s("Tup"));
                let aj: Vec<J> = es.iter().map(|a| self.expr(a)).collect();
                o.set("elems", J::Arr(aj));
            }
            hir::ExprKind::Array(es) => {
                o.set("k", J::s("Array"));
                let aj: Vec<J> = es.iter().map(|a| self.expr(a)).collect();
                o.set("elems", J::Arr(aj));
            }
            hir::ExprKind::Binary(op, l, r) => {
                o.set("k", J::s("Binary"));
                o.set("op", J::s(format!("{:?}", op.node)));
                if let Some(did) = self.tr.type_dependent_def_id(e.hir_id) {
                    let ga = self.tr.node_args(e.hir_id);
                    o.set("callee", callee_j(self.tcx, self.owner, did, Some(ga)));
                }
                let lj = self.expr(l);
                let rj = self.expr(r);
                o.set("l", lj);
                o.set("r", rj);
            }
            hir::ExprKind::Unary(op, x) => {
                o.set("k", J::s("Unary"));
                o.set("op", J::s(format!("{:?}", op)));
                if let Some(did) = self.tr.type_dependent_def_id(e.hir_id) {
                    let ga = self.tr.node_args(e.hir_id);
                    o.set("callee", callee_j(self.tcx, self.owner, did, Some(ga)));
                }
                let xj = self.expr(x);
                o.set("x", xj);
            }
            hir::ExprKind::Lit(l) => {
                o.set("k", J::s("Lit"));
                o.set("lit", lit_j(&l.node));
            }
            hir::ExprKind::Cast(x, _) => {
                o.set("k", J::s("Cast"));
                let xj = self.expr(x);
                o.set("x", xj);
            }
            hir::ExprKind::Type(x, _) => {
                o.set("k", J::s("Type"));
                let xj = self.expr(x);
                o.set("x", xj);
            }
            hir::ExprKind::DropTemps(x) => {
                o.set("k", J::s("DropTemps"));
                let xj = self.expr(x);
                o.set("x", xj);
            }
            hir::ExprKind::Let(l) => {
                o.set("k", J::s("LetCond"));
                let pj = self.pat(l.pat);
                o.set("pat", pj);
                let ij = self.expr(l.init);
                o.set("init", ij);
            }
            hir::ExprKind::If(c, t, els) => {
                o.set("k", J::s("If"));
                let cj = self.expr(c);
                o.set("cond", cj);
                let tj = self.expr(t);
                o.set("then", tj);
                if let Some(x) = els {
                    let xj = self.expr(x);
                    o.set("else", xj);
                }
            }
            hir::ExprKind::Loop(b, _, src, _) => {
                o.set("k", J::s("Loop"));
                o.set("source", J::s(format!("{:?}", src)));
                let bj = self.block(b);
                o.set("body", bj);
            }
            hir::ExprKind::Match(scrut, arms, src) => {
                o.set("k", J::s("Match"));
                o.set("source", J::s(format!("{:?}", src)));
                let sj = self.expr(scrut);
                o.set("scrut", sj);
                let mut aj = Vec::new();
                for arm in arms.iter() {
                    let mut ao = J::obj();
                    ao.set("sp", span_j(self.tcx, arm.span));
                    let pj = self.pat(arm.pat);
                    ao.set("pat", pj);
                    if let Some(g) = arm.guard {
                        let gj = self.expr(g);
                        ao.set("guard", gj);
                    }
                    let bj = self.expr(arm.body);
                    ao.set("body", bj);
                    aj.push(ao);
                }
                o.set("arms", J::Arr(aj));
            }
            hir::ExprKind::Closure(c) => {
                o.set("k", J::s("Closure"));
                o.set("def", J::s(path_str(self.tcx, c.def_id.to_def_id())));
                let body = self.tcx.hir_body(c.body);
                let mut ps = Vec::new();
                for p in body.params.iter() {
                    let pj = self.pat(p.pat);
                    ps.push(pj);
                }
                o.set("params", J::Arr(ps));
                let bj = self.expr(body.value);
                o.set("body", bj);
            }
            hir::ExprKind::Block(b, _) => {
                let bj = self.block(b);
                // keep the outer id/sp/ty and nest the block
                o.set("k", J::s("BlockExpr"));
                o.set("block", bj);
            }
            hir::ExprKind::Assign(l, r, _) => {
                o.set("k", J::s("Assign"));
                let lj = self.expr(l);
                let rj = self.expr(r);
                o.set("l", lj);
                o.set("r", rj);
            }
            hir::ExprKind::AssignOp(op, l, r) => {
                o.set("k", J::s("AssignOp"));
                o.set("op", J::s(format!("{:?}", op.node)));
                let lj = self.expr(l);
                let rj = self.expr(r);
                o.set("l", lj);
                o.set("r", rj);
            }
            hir::ExprKind::Field(x, ident) => {
                o.set("k", J::s("Field"));
                o.set("field", J::s(ident.to_string()));
                o.set("base_ty", J::s(ty_str(self.tr.expr_ty_adjusted(x))));
                let xj = self.expr(x);
                o.set("x", xj);
            }
            hir::ExprKind::Index(x, i, _) => {
                o.set("k", J::s("Index"));
                if let Some(did) = self.tr.type_dependent_def_id(e.hir_id) {
                    let ga = self.tr.node_args(e.hir_id);
                    o.set("callee", callee_j(self.tcx, self.owner, did, Some(ga)));
                }
                o.set("base_ty", J::s(ty_str(self.tr.expr_ty_adjusted(x))));
                let xj = self.expr(x);
                let ij = self.expr(i);
                o.set("x", xj);
                o.set("i", ij);
            }
            hir::ExprKind::Path(q) => {
                o.set("k", J::s("Path"));
                let res = self.tr.qpath_res(q, e.hir_id);
                o.set("res", self.res_j(res));
                o.set("qname", J::s(self.qpath_name(q)));
                if let Res::Def(DefKind::AssocFn | DefKind::Fn | DefKind::AssocConst { .. }, did) = res {
                    if let Some(ga) = self.tr.node_args_opt(e.hir_id) {
                        o.set("callee", callee_j(self.tcx, self.owner, did, Some(ga)));
                    }
                }
            }
            hir::ExprKind::AddrOf(_, m, x) => {
                o.set("k", J::s("AddrOf"));
                o.set("mut", J::Bool(matches!(m, hir::Mutability::Mut)));
                let xj = self.expr(x);
                o.set("x", xj);
            }
            hir::ExprKind::Break(_, x) => {
                o.set("k", J::s("Break"));
                if let Some(x) = x {
                    let xj = self.expr(x);
                    o.set("x", xj);
                }
            }
            hir::ExprKind::Continue(_) => {
                o.set("k", J::s("Continue"));
            }
            hir::ExprKind::Ret(x) => {
                o.set("k", J::s("Ret"));
                if let Some(x) = x {
                    let xj = self.expr(x);
                    o.set("x", xj);
                }
            }
            hir::ExprKind::Struct(q, fields, base) => {
                o.set("k", J::s("Struct"));
                let res = self.tr.qpath_res(q, e.hir_id);
                o.set("res", self.res_j(res));
                o.set("qname", J::s(self.qpath_name(q)));
                let mut fs = Vec::new();
                for f in fields.iter() {
                    let ej = self.expr(f.expr);
                    fs.push(
                        J::obj()
                            .with("name", J::s(f.ident.to_string()))
                            .with("shorthand", J::Bool(f.is_shorthand))
                            .with("e", ej),
                    );
                }
                o.set("fields", J::Arr(fs));
                match base {
                    hir::StructTailExpr::Base(b) => {
                        let bj = self.expr(b);
                        o.set("base", bj);
                    }
                    hir::StructTailExpr::None => {}
                    _ => {
                        o.set("base_default", J::Bool(true));
                    }
                }
            }
            hir::ExprKind::Repeat(x, _) => {
                o.set("k", J::s("Repeat"));
                let xj = self.expr(x);
                o.set("x", xj);
            }
            hir::ExprKind::ConstBlock(_) => {
                o.set("k", J::s("ConstBlock"));
            }
            hir::ExprKind::Yield(x, _) => {
                o.set("k", J::s("Yield"));
                let xj = self.expr(x);
                o.set("x", xj);
            }
            hir::ExprKind::Use(x, _) => {
                o.set("k", J::s("Use"));
                let xj = self.expr(x);
                o.set("x", xj);
            }
            hir::ExprKind::InlineAsm(_) => {
                o.set("k", J::s("InlineAsm"));
            }
            other => {
                o.set("k", J::s("Other"));
                o.set("dbg", J::s(format!("{:?}", std::mem::discriminant(other))));
            }
        }
        o
    }
}

fn lit_j(l: &rustc_ast::LitKind) -> J {
    use rustc_ast::LitKind::*;
    let mut o = J::obj();
    match l {
        Str(sym, _) => {
            o.set("t", J::s("str"));
            o.set("v", J::s(sym.as_str().to_string()));
        }
        ByteStr(b, _) => {
            o.set("t", J::s("bytes"));
            let bytes: &[u8] = b.as_byte_str();
            o.set("v", J::Arr(bytes.iter().map(|x| J::Int(*x as i128)).collect()));
        }
        Int(v, _) => {
            o.set("t", J::s("int"));
            o.set("v", J::Int(v.get() as i128));
        }
        Bool(b) => {
            o.set("t", J::s("bool"));
            o.set("v", J::Bool(*b));
        }
        Char(c) => {
            o.set("t", J::s("char"));
            o.set("v", J::s(c.to_string()));
        }
        Byte(b) => {
            o.set("t", J::s("byte"));
            o.set("v", J::Int(*b as i128));
        }
        Float(sym, _) => {
            o.set("t", J::s("float"));
            o.set("v", J::s(sym.as_str().to_string()));
        }
        other => {
            o.set("t", J::s("other"));
            o.set("v", J::s(format!("{:?}", other)));
        }
    }
    o
}

fn owner_info<'tcx>(tcx: TyCtxt<'tcx>, ldid: LocalDefId, o: &mut J) {
    let did = ldid.to_def_id();
    o.set("def", J::s(path_str(tcx, did)));
    o.set("kind", J::s(format!("{:?}", tcx.def_kind(did))));
    o.set("sp", span_j(tcx, tcx.def_span(did)));
    o.set("gen", J::Bool(tcx.def_span(did).from_expansion()));
    let hid = tcx.local_def_id_to_hir_id(ldid);
    o.set("full_sp", span_j(tcx, tcx.hir_span_with_body(hid)));
    if !tcx.is_closure_like(did) {
        o.set("name", J::s(tcx.item_name(did).to_string()));
        o.set("vis", J::s(format!("{:?}", tcx.visibility(did))));
        if let Some(assoc) = tcx.opt_associated_item(did) {
            let parent = tcx.parent(did);
            match assoc.container {
                ty::AssocContainer::Trait => {
                    o.set("in_trait", J::s(path_str(tcx, parent)));
                }
                ty::AssocContainer::TraitImpl(_) => {
                    let tref = tcx.impl_trait_ref(parent);
                    o.set("impl_of_trait", J::s(path_str(tcx, tref.skip_binder().def_id)));
                    o.set(
                        "self_ty",
                        J::s(ty_str(tcx.type_of(parent).instantiate_identity().skip_norm_wip())),
                    );
                }
                ty::AssocContainer::InherentImpl => {
                    o.set(
                        "self_ty",
                        J::s(ty_str(tcx.type_of(parent).instantiate_identity().skip_norm_wip())),
                    );
                }
            }
        }
    } else {
        o.set("parent_fn", J::s(path_str(tcx, tcx.typeck_root_def_id(did))));
    }
}

pub fn dump_fn<'tcx>(tcx: TyCtxt<'tcx>, ldid: LocalDefId) -> J {
    let mut o = J::obj();
    owner_info(tcx, ldid, &mut o);
    let tr = tcx.typeck(ldid);
    let body = tcx.hir_body_owned_by(ldid);
    let mut d = D {
        tcx,
        tr,
        owner: ldid.to_def_id(),
        next: 0,
    };
    let sig = tcx.fn_sig(ldid).instantiate_identity().skip_norm_wip().skip_binder();
    let mut ps = Vec::new();
    for (i, p) in body.params.iter().enumerate() {
        let pj = d.pat(p.pat);
        let t = sig.inputs().get(i).map(|t| ty_str(*t)).unwrap_or_default();
        ps.push(J::obj().with("pat", pj).with("ty", J::s(t)));
    }
    o.set("params", J::Arr(ps));
    o.set("ret", J::s(ty_str(sig.output())));
    let bj = d.expr(body.value);
    o.set("body", bj);
    o.set("mir", mirdump::dump_mir(tcx, ldid));
    o
}

pub fn dump_closure_stub<'tcx>(tcx: TyCtxt<'tcx>, ldid: LocalDefId) -> J {
    let mut o = J::obj();
    owner_info(tcx, ldid, &mut o);
    o.set("closure", J::Bool(true));
    o.set("mir", mirdump::dump_mir(tcx, ldid));
    o
}

pub fn dump_const<'tcx>(tcx: TyCtxt<'tcx>, ldid: LocalDefId) -> J {
    let mut o = J::obj();
    owner_info(tcx, ldid, &mut o);
    let did = ldid.to_def_id();
    o.set("ty", J::s(ty_str(tcx.type_of(did).instantiate_identity().skip_norm_wip())));
    if let DefKind::Static { mutability, .. } = tcx.def_kind(did) {
        o.set("static_mut", J::Bool(matches!(mutability, hir::Mutability::Mut)));
        let t = tcx.type_of(did).instantiate_identity().skip_norm_wip();
        let env = ty::TypingEnv::post_analysis(tcx, did);
        o.set("freeze", J::Bool(t.is_freeze(tcx, env)));
    }
    let tr = tcx.typeck(ldid);
    let body = tcx.hir_body_owned_by(ldid);
    let mut d = D {
        tcx,
        tr,
        owner: did,
        next: 0,
    };
    let bj = d.expr(body.value);
    o.set("body", bj);
    o
}

pub fn dump_impls<'tcx>(tcx: TyCtxt<'tcx>) -> J {
    let mut out = Vec::new();
    for id in tcx.hir_free_items() {
        let did = id.owner_id.to_def_id();
        if let DefKind::Impl { of_trait } = tcx.def_kind(did) {
            let mut o = J::obj();
            o.set("sp", span_j(tcx, tcx.def_span(did)));
            o.set(
                "self_ty",
                J::s(ty_str(tcx.type_of(did).instantiate_identity().skip_norm_wip())),
            );
            if of_trait {
                let tref = tcx.impl_trait_ref(did);
                o.set("trait", J::s(path_str(tcx, tref.skip_binder().def_id)));
            }
            let mut items = Vec::new();
            for ai in tcx.associated_items(did).in_definition_order() {
                items.push(J::s(ai.name().to_string()));
            }
            o.set("items", J::Arr(items));
            out.push(o);
        }
    }
    J::Arr(out)
}
