// Reduced MIR dump: CFG with resolved call terminators, asserts, switches, drops.
use crate::hirdump::{callee_j, span_j, ty_str};
use crate::json::J;
use rustc_hir::def_id::LocalDefId;
use rustc_middle::mir::{self, Operand, TerminatorKind};
use rustc_middle::ty::{self, TyCtxt};

fn operand_j<'tcx>(op: &Operand<'tcx>) -> J {
    J::s(format!("{:?}", op))
}

pub fn dump_mir<'tcx>(tcx: TyCtxt<'tcx>, ldid: LocalDefId) -> J {
    let did = ldid.to_def_id();
    if !tcx.is_mir_available(did) {
        return J::Null;
    }
    let body: &mir::Body<'tcx> = tcx.optimized_mir(did);
    let mut o = J::obj();
    let mut locals = Vec::new();
    for (l, decl) in body.local_decls.iter_enumerated() {
        locals.push(
            J::obj()
                .with("l", J::s(format!("{:?}", l)))
                .with("ty", J::s(ty_str(decl.ty))),
        );
    }
    o.set("locals", J::Arr(locals));
    o.set("arg_count", J::Int(body.arg_count as i128));
    let mut dbg = Vec::new();
    for v in body.var_debug_info.iter() {
        dbg.push(
            J::obj()
                .with("name", J::s(v.name.to_string()))
                .with("value", J::s(format!("{:?}", v.value))),
        );
    }
    o.set("debug", J::Arr(dbg));
    let mut blocks = Vec::new();
    for (bb, data) in body.basic_blocks.iter_enumerated() {
        let mut b = J::obj();
        b.set("bb", J::Int(bb.as_usize() as i128));
        b.set("cleanup", J::Bool(data.is_cleanup));
        let stmts: Vec<J> = data
            .statements
            .iter()
            .filter(|s| {
                !matches!(
                    s.kind,
                    mir::StatementKind::StorageLive(_)
                        | mir::StatementKind::StorageDead(_)
                        | mir::StatementKind::Nop
                )
            })
            .map(|s| J::s(format!("{:?}", s)))
            .collect();
        b.set("stmts", J::Arr(stmts));
        let term = data.terminator();
        let mut t = J::obj();
        t.set("sp", span_j(tcx, term.source_info.span));
        if term.source_info.span.from_expansion() {
            t.set("exp", J::Bool(true));
        }
        match &term.kind {
            TerminatorKind::Call {
                func,
                args,
                destination,
                target,
                ..
            } => {
                t.set("k", J::s("Call"));
                if let Some((fdid, ga)) = func.const_fn_def() {
                    t.set("callee", callee_j(tcx, did, fdid, Some(ga)));
                } else {
                    t.set("fn_operand", operand_j(func));
                    let fty = func.ty(&body.local_decls, tcx);
                    t.set("fn_ty", J::s(ty_str(fty)));
                }
                let aj: Vec<J> = args.iter().map(|a| operand_j(&a.node)).collect();
                t.set("args", J::Arr(aj));
                let at: Vec<J> = args
                    .iter()
                    .map(|a| J::s(ty_str(a.node.ty(&body.local_decls, tcx))))
                    .collect();
                t.set("arg_tys", J::Arr(at));
                t.set("dest", J::s(format!("{:?}", destination)));
                if let Some(tg) = target {
                    t.set("target", J::Int(tg.as_usize() as i128));
                }
            }
            TerminatorKind::SwitchInt { discr, targets } => {
                t.set("k", J::s("SwitchInt"));
                t.set("discr", operand_j(discr));
                let mut ts = Vec::new();
                for (v, tg) in targets.iter() {
                    ts.push(J::Arr(vec![J::Int(v as i128), J::Int(tg.as_usize() as i128)]));
                }
                t.set("targets", J::Arr(ts));
                t.set("otherwise", J::Int(targets.otherwise().as_usize() as i128));
            }
            TerminatorKind::Assert {
                cond,
                expected,
                msg,
                target,
                ..
            } => {
                t.set("k", J::s("Assert"));
                t.set("cond", operand_j(cond));
                t.set("expected", J::Bool(*expected));
                t.set("msg", J::s(format!("{:?}", msg)));
                let kind = match &**msg {
                    mir::AssertKind::BoundsCheck { .. } => "BoundsCheck",
                    mir::AssertKind::Overflow(..) => "Overflow",
                    mir::AssertKind::OverflowNeg(..) => "OverflowNeg",
                    mir::AssertKind::DivisionByZero(..) => "DivisionByZero",
                    mir::AssertKind::RemainderByZero(..) => "RemainderByZero",
                    _ => "Other",
                };
                t.set("assert_kind", J::s(kind));
                t.set("target", J::Int(target.as_usize() as i128));
            }
            TerminatorKind::Drop { place, target, .. } => {
                t.set("k", J::s("Drop"));
                t.set("place", J::s(format!("{:?}", place)));
                t.set("ty", J::s(ty_str(place.ty(&body.local_decls, tcx).ty)));
                t.set("target", J::Int(target.as_usize() as i128));
            }
            TerminatorKind::Goto { target } => {
                t.set("k", J::s("Goto"));
                t.set("target", J::Int(target.as_usize() as i128));
            }
            TerminatorKind::Return => {
                t.set("k", J::s("Return"));
            }
            TerminatorKind::Unreachable => {
                t.set("k", J::s("Unreachable"));
            }
            TerminatorKind::UnwindResume => {
                t.set("k", J::s("UnwindResume"));
            }
            other => {
                t.set("k", J::s("Other"));
                t.set("dbg", J::s(format!("{:?}", other)));
                let succ: Vec<J> = other
                    .successors()
                    .map(|s| J::Int(s.as_usize() as i128))
                    .collect();
                t.set("succ", J::Arr(succ));
            }
        }
        b.set("term", t);
        blocks.push(b);
    }
    o.set("blocks", J::Arr(blocks));
    let _ = ty::List::<u8>::empty();
    o
}
