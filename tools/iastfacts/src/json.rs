// Minimal JSON value + writer (the driver has no Cargo dependencies).
use std::fmt::Write;

#[derive(Clone, Debug)]
pub enum J {
    Null,
    Bool(bool),
    Int(i128),
    Str(String),
    Arr(Vec<J>),
    Obj(Vec<(String, J)>),
}

impl J {
    pub fn obj() -> J {
        J::Obj(Vec::new())
    }
    pub fn s<T: Into<String>>(s: T) -> J {
        J::Str(s.into())
    }
    pub fn set<T: Into<String>>(&mut self, k: T, v: J) -> &mut J {
        if let J::Obj(items) = self {
            items.push((k.into(), v));
        }
        self
    }
    pub fn with<T: Into<String>>(mut self, k: T, v: J) -> J {
        self.set(k, v);
        self
    }
    pub fn write(&self, out: &mut String) {
        match self {
            J::Null => out.push_str("null"),
            J::Bool(b) => out.push_str(if *b { "true" } else { "false" }),
            J::Int(i) => {
                let _ = write!(out, "{}", i);
            }
            J::Str(s) => write_str(s, out),
            J::Arr(items) => {
                out.push('[');
                for (i, it) in items.iter().enumerate() {
                    if i > 0 {
                        out.push(',');
                    }
                    it.write(out);
                }
                out.push(']');
            }
            J::Obj(items) => {
                out.push('{');
                for (i, (k, v)) in items.iter().enumerate() {
                    if i > 0 {
                        out.push(',');
                    }
                    write_str(k, out);
                    out.push(':');
                    v.write(out);
                }
                out.push('}');
            }
        }
    }
}

fn write_str(s: &str, out: &mut String) {
    out.push('"');
    for c in s.chars() {
        match c {
            '"' => out.push_str("\\\""),
            '\\' => out.push_str("\\\\"),
            '\n' => out.push_str("\\n"),
            '\r' => out.push_str("\\r"),
            '\t' => out.push_str("\\t"),
            c if (c as u32) < 0x20 => {
                let _ = write!(out, "\\u{:04x}", c as u32);
            }
            c => out.push(c),
        }
    }
    out.push('"');
}
