// ADT graph (from rustc metadata of the compiled dependency versions) and type queries.
use crate::hirdump::{path_str, ty_str};
use crate::json::J;
use rustc_hir::def::DefKind;
use rustc_hir::def_id::{DefId, LOCAL_CRATE};
use rustc_middle::ty::{self, Ty, TyCtxt};
use std::collections::{BTreeMap, BTreeSet, VecDeque};

const EXPAND_CRATES: &[&str] = &["swc_ecma_ast", "swc_common", "swc_atoms", "hstr"];

fn adts_in_ty<'tcx>(tcx: TyCtxt<'tcx>, t: Ty<'tcx>, out: &mut Vec<DefId>) {
    for ga in t.walk() {
        if let Some(t) = ga.as_type() {
            if let ty::Adt(def, _) = t.kind() {
                if !out.contains(&def.did()) {
                    out.push(def.did());
                }
            }
        }
    }
    let _ = tcx;
}

fn adt_j<'tcx>(tcx: TyCtxt<'tcx>, did: DefId, queue: &mut VecDeque<DefId>) -> J {
    let def = tcx.adt_def(did);
    let mut o = J::obj();
    o.set("path", J::s(path_str(tcx, did)));
    o.set("name", J::s(tcx.item_name(did).to_string()));
    o.set("krate", J::s(tcx.crate_name(did.krate).to_string()));
    o.set(
        "kind",
        J::s(if def.is_enum() {
            "enum"
        } else if def.is_union() {
            "union"
        } else {
            "struct"
        }),
    );
    let mut vs = Vec::new();
    for v in def.variants().iter() {
        let mut vo = J::obj();
        vo.set("name", J::s(v.name.to_string()));
        vo.set("ctor_kind", J::s(format!("{:?}", v.ctor_kind())));
        let mut fs = Vec::new();
        for f in v.fields.iter() {
            let ft = tcx.type_of(f.did).instantiate_identity().skip_norm_wip();
            let mut found = Vec::new();
            adts_in_ty(tcx, ft, &mut found);
            for d in found.iter() {
                queue.push_back(*d);
            }
            fs.push(
                J::obj()
                    .with("name", J::s(f.name.to_string()))
                    .with("ty", J::s(ty_str(ft)))
                    .with(
                        "adts",
                        J::Arr(found.iter().map(|d| J::s(path_str(tcx, *d))).collect()),
                    ),
            );
        }
        vo.set("fields", J::Arr(fs));
        vs.push(vo);
    }
    o.set("variants", J::Arr(vs));
    o
}

pub fn dump_adts<'tcx>(tcx: TyCtxt<'tcx>) -> J {
    let mut queue: VecDeque<DefId> = VecDeque::new();
    // roots: every ADT mentioned in a signature of the crate + every local ADT
    for ldid in tcx.hir_body_owners() {
        let did = ldid.to_def_id();
        match tcx.def_kind(did) {
            DefKind::Fn | DefKind::AssocFn => {
                let sig = tcx.fn_sig(did).instantiate_identity().skip_norm_wip().skip_binder();
                for t in sig.inputs_and_output.iter() {
                    let mut found = Vec::new();
                    adts_in_ty(tcx, t, &mut found);
                    queue.extend(found);
                }
            }
            _ => {}
        }
    }
    for id in tcx.hir_free_items() {
        let did = id.owner_id.to_def_id();
        if matches!(tcx.def_kind(did), DefKind::Struct | DefKind::Enum) {
            queue.push_back(did);
        }
    }
    let mut seen: std::collections::HashSet<DefId> = std::collections::HashSet::new();
    let mut out: BTreeMap<String, J> = BTreeMap::new();
    while let Some(did) = queue.pop_front() {
        if !seen.insert(did) {
            continue;
        }
        let krate = tcx.crate_name(did.krate).to_string();
        let expand = did.krate == LOCAL_CRATE || EXPAND_CRATES.contains(&krate.as_str());
        if !expand {
            continue;
        }
        let mut q2 = VecDeque::new();
        let j = adt_j(tcx, did, &mut q2);
        out.insert(path_str(tcx, did), j);
        queue.extend(q2);
    }
    J::Obj(out.into_iter().collect())
}

// Deep interior-mutability walk: `Freeze` is shallow (Box<Cell<_>> is Freeze), so follow owned
// fields and generic arguments and report every path reaching UnsafeCell or a raw pointer.
fn deep_walk<'tcx>(
    tcx: TyCtxt<'tcx>,
    t: Ty<'tcx>,
    path: &mut Vec<String>,
    seen: &mut BTreeSet<String>,
    leaves: &mut Vec<J>,
    depth: usize,
) {
    if depth > 40 || leaves.len() > 400 {
        return;
    }
    match t.kind() {
        ty::Adt(def, args) => {
            let p = path_str(tcx, def.did());
            if def.is_unsafe_cell() {
                leaves.push(
                    J::obj()
                        .with("leaf", J::s("UnsafeCell"))
                        .with("via", J::Arr(path.iter().map(|s| J::s(s.clone())).collect())),
                );
                return;
            }
            let key = ty_str(t);
            if !seen.insert(key) {
                return;
            }
            if def.is_phantom_data() {
                // PhantomData<T> marks (possible) ownership of T: containers such as Vec<T> only
                // mention T this way, so follow it
                path.push(p);
                for ga in args.iter() {
                    if let Some(inner) = ga.as_type() {
                        deep_walk(tcx, inner, path, seen, leaves, depth + 1);
                    }
                }
                path.pop();
                return;
            }
            path.push(p);
            for v in def.variants().iter() {
                for f in v.fields.iter() {
                    let ft = f.ty(tcx, args);
                    deep_walk(tcx, ft, path, seen, leaves, depth + 1);
                }
            }
            path.pop();
        }
        ty::RawPtr(..) => {
            leaves.push(
                J::obj()
                    .with("leaf", J::s("RawPtr"))
                    .with("ty", J::s(ty_str(t)))
                    .with("via", J::Arr(path.iter().map(|s| J::s(s.clone())).collect())),
            );
        }
        ty::Ref(_, inner, _) | ty::Slice(inner) | ty::Array(inner, _) => {
            deep_walk(tcx, *inner, path, seen, leaves, depth + 1)
        }
        ty::Pat(inner, _) => deep_walk(tcx, *inner, path, seen, leaves, depth + 1),
        ty::Tuple(ts) => {
            for x in ts.iter() {
                deep_walk(tcx, x, path, seen, leaves, depth + 1);
            }
        }
        ty::Dynamic(..) => {
            leaves.push(
                J::obj()
                    .with("leaf", J::s("Dyn"))
                    .with("ty", J::s(ty_str(t)))
                    .with("via", J::Arr(path.iter().map(|s| J::s(s.clone())).collect())),
            );
        }
        ty::FnPtr(..) | ty::FnDef(..) | ty::Closure(..) => {}
        _ => {}
    }
}

pub fn dump_typeq<'tcx>(tcx: TyCtxt<'tcx>) -> J {
    let mut out = Vec::new();
    for id in tcx.hir_free_items() {
        let did = id.owner_id.to_def_id();
        if !matches!(tcx.def_kind(did), DefKind::Struct | DefKind::Enum) {
            continue;
        }
        let generics = tcx.generics_of(did);
        let t = tcx.type_of(did).instantiate_identity().skip_norm_wip();
        let env = ty::TypingEnv::post_analysis(tcx, did);
        let mut o = J::obj();
        o.set("path", J::s(path_str(tcx, did)));
        o.set("generic", J::Bool(generics.count() > 0));
        o.set("freeze", J::Bool(t.is_freeze(tcx, env)));
        let mut leaves = Vec::new();
        let mut seen = BTreeSet::new();
        let mut path = Vec::new();
        deep_walk(tcx, t, &mut path, &mut seen, &mut leaves, 0);
        o.set("interior", J::Arr(leaves));
        // every ADT reachable by ownership (for "does Rewriter own a Compiler?" questions)
        o.set("reach", J::Arr(seen.into_iter().map(J::s).collect()));
        out.push(o);
    }
    J::Arr(out)
}
