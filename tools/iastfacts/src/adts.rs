// ADT graph (from rustc metadata of the compiled dependency versions) and type queries.
use crate::hirdump::{path_str, ty_str};
use crate::json::J;
use rustc_hir::def::DefKind;
use rustc_hir::def_id::{DefId, LOCAL_CRATE};
use rustc_middle::ty::{self, Ty, TyCtxt};
use std::collections::{BTreeMap, BTreeSet, VecDeque};

const EXPAND_CRATES: &[&str] = &["swc_ecma_ast", "swc_common", "swc_atoms", "hstr"];

fn adts_in_ty<'tcx>(tcx: TyCtxt<'tcx>, t: Ty<'tcx>, out: &mut Vec<DefId>) {
    for ga in t.walk() {
        if let Some(t) = ga.as_type() {
            if let ty::Adt(def, _) = t.kind() {
                if !out.contains(&def.did()) {
                    out.push(def.did());
                }
            }
        }
    }
    let _ = tcx;
}

fn adt_j<'tcx>(tcx: TyCtxt<'tcx>, did: DefId, queue: &mut VecDeque<DefId>) -> J {
    let def = tcx.adt_def(did);
    let mut o = J::obj();
    o.set("path", J::s(path_str(tcx, did)));
    o.set("name", J::s(tcx.item_name(did).to_string()));
    o.set("krate", J::s(tcx.crate_name(did.krate).to_string()));
    o.set(
        "kind",
        J::s(if def.is_enum() {
            "enum"
        } else if def.is_union() {
            "union"
        } else {
            "struct"
        }),
    );
    let mut vs = Vec::new();
    for v in def.variants().iter() {
        let mut vo = J::obj();
        vo.set("name", J::s(v.name.to_string()));
        vo.set("ctor_kind", J::s(format!("{:?}", v.ctor_kind())));
        let mut fs = Vec::new();
        for f in v.fields.iter() {
            let ft = tcx.type_of(f.did).instantiate_identity().skip_norm_wip();
            let mut found = Vec::new();
            adts_in_ty(tcx, ft, &mut found);
            for d in found.iter() {
                queue.push_back(*d);
            }
            fs.push(
                J::obj()
                    .with("name", J::s(f.name.to_string()))
                    .with("ty", J::s(ty_str(ft)))
                    .with(
                        "adts",
                        J::Arr(found.iter().map(|d| J::s(path_str(tcx, *d))).collect()),
                    ),
            );
        }
        vo.set("fields", J::Arr(fs));
        vs.push(vo);
    }
    o.set("variants", J::Arr(vs));
    o
}

pub fn dump_adts<'tcx>(tcx: TyCtxt<'tcx>) -> J {
    let mut queue: VecDeque<DefId> = VecDeque::new();
    // roots: every ADT mentioned in a signature of the crate + every local ADT
    for ldid in tcx.hir_body_owners() {
        let did = ldid.to_def_id();
        match tcx.def_kind(did) {
            DefKind::Fn | DefKind::AssocFn => {
                let sig = tcx.fn_sig(did).instantiate_identity().skip_norm_wip().skip_binder();
                for t in sig.inputs_and_output.iter() {
                    let mut found = Vec::new();
                    adts_in_ty(tcx, t, &mut found);
                    queue.extend(found);
                }
            }
            _ => {}
        }
    }
    for id in tcx.hir_free_items() {
        let did = id.owner_id.to_def_id();
        if matches!(tcx.def_kind(did), DefKind::Struct | DefKind::Enum) {
            queue.push_back(did);
        }
    }
    let mut seen: std::collections::HashSet<DefId> = std::collections::HashSet::new();
    let mut out: BTreeMap<String, J> = BTreeMap::new();
    while let Some(did) = queue.pop_front() {
        if !seen.insert(did) {
            continue;
        }
        let krate = tcx.crate_name(did.krate).to_string();
        let expand = did.krate == LOCAL_CRATE || EXPAND_CRATES.contains(&krate.as_str());
        if !expand {
            continue;
        }
        let mut q2 = VecDeque::new();
        let j = adt_j(tcx, did, &mut q2);
        out.insert(path_str(tcx, did), j);
        queue.extend(q2);
    }
    J::Obj(out.into_iter().collect())
}

// Deep interior-mutability walk: `Freeze` is shallow (Box<Cell<_>> is Freeze), so follow owned
// fields and generic arguments and report every path reaching UnsafeCell or a raw pointer.
fn deep_walk<'tcx>(
    tcx: TyCtxt<'tcx>,
    t: Ty<'tcx>,
    path: &mut Vec<String>,
    seen: &mut BTreeSet<String>,
    leaves: &mut Vec<J>,
    depth: usize,
) {
    if depth > 40 || leaves.len() > 400 {
        return;
    }
    match t.kind() {
        ty::Adt(def, args) => {
            let p = path_str(tcx, def.did());
            if def.is_unsafe_cell() {
                leaves.push(
                    J::obj()
                        .with("leaf", J::s("UnsafeCell"))
                        .with("via", J::Arr(path.iter().map(|s| J::s(s.clone())).collect())),
                );
                return;
            }
            let key = ty_str(t);
            if !seen.insert(key) {
                return;
            }
            if def.is_phantom_data() {
                // PhantomData<T> marks (possible) ownership of T: containers such as Vec<T> only
                // mention T this way, so follow it
                path.push(p);
                for ga in args.iter() {
                    if let Some(inner) = ga.as_type() {
                        deep_walk(tcx, inner, path, seen, leaves, depth + 1);
                    }
                }
                path.pop();
                return;
            }
            path.push(p);
            for v in def.variants().iter() {
                for f in v.fields.iter() {
                    let ft = f.ty(tcx, args);
                    deep_walk(tcx, ft, path, seen, leaves, depth + 1);
                }
            }
            path.pop();
        }
        ty::RawPtr(..) => {
            leaves.push(
                J::obj()
                    .with("leaf", J::s("RawPtr"))
                    .with("ty", J::s(ty_str(t)))
                    .with("via", J::Arr(path.iter().map(|s| J::s(s.clone())).collect())),
            );
        }
        ty::Ref(_, inner, _) | ty::Slice(inner) | ty::Array(inner, _) => {
            deep_walk(tcx, *inner, path, seen, leaves, depth + 1)
        }
        ty::Pat(inner, _) => deep_walk(tcx, *inner, path, seen, leaves, depth + 1),
        ty::Tuple(ts) => {
            for x in ts.iter() {
                deep_walk(tcx, x, path, seen, leaves, depth + 1);
            }
        }
        ty::Dynamic(..) => {
            leaves.push(
                J::obj()
                    .with("leaf", J::s("Dyn"))
                    .with("ty", J::s(ty_str(t)))
                    .with("via", J::Arr(path.iter().map(|s| J::s(s.clone())).collect())),
            );
        }
        ty::FnPtr(..) | ty::FnDef(..) | ty::Closure(..) => {}
        _ => {}
    }
}

pub fn dump_typeq<'tcx>(tcx: TyCtxt<'tcx>) -> J {
    let mut out = Vec::new();
    for id in tcx.hir_free_items() {
        let did = id.owner_id.to_def_id();
        if !matches!(tcx.def_kind(did), DefKind::Struct | DefKind::Enum) {
            continue;
        }
        let generics = tcx.generics_of(did);
        let t = tcx.type_of(did).instantiate_identity().skip_norm_wip();
        let env = ty::TypingEnv::post_analysis(tcx, did);
        let mut o = J::obj();
        o.set("path", J::s(path_str(tcx, did)));
        o.set("generic", J::Bool(generics.count() > 0));
        o.set("freeze", J::Bool(t.is_freeze(tcx, env)));
        let mut leaves = Vec::new();
        let mut seen = BTreeSet::new();
        let mut path = Vec::new();
        deep_walk(tcx, t, &mut path, &mut seen, &mut leaves, 0);
        o.set("interior", J::Arr(leaves));
        // every ADT reachable by ownership (for "does Rewriter own a Compiler?" questions)
        o.set("reach", J::Arr(seen.into_iter().map(J::s).collect()));
        out.push(o);
    }
    J::Arr(out)
}

// Default traversal of the compiled swc_ecma_visit version: for every `impl VisitMutWith<V> for T`
// / `impl VisitWith<V> for T` (T an AST struct/enum) dump, from the MIR of its
// `visit_[mut_]children_with`, which field of `self` is handed to which `visit_[mut_]with` call.
pub fn dump_default_visitors<'tcx>(tcx: TyCtxt<'tcx>) -> J {
    use rustc_middle::mir::{Operand, Rvalue, StatementKind, TerminatorKind};
    let mut out = Vec::new();
    let krate = tcx.crates(()).iter().copied().find(|c| tcx.crate_name(*c).as_str() == "swc_ecma_visit");
    let Some(krate) = krate else { return J::Arr(out) };
    // default methods of the visitor traits: which `T::visit_*children_with` each one calls
    for tr in tcx.traits(krate).iter() {
        let tname = tcx.item_name(*tr).to_string();
        if tname != "VisitMut" && tname != "Visit" {
            continue;
        }
        for item in tcx.associated_items(*tr).in_definition_order() {
            if !item.defaultness(tcx).has_value() || !tcx.is_mir_available(item.def_id) {
                continue;
            }
            let body = tcx.optimized_mir(item.def_id);
            let mut callees = Vec::new();
            for data in body.basic_blocks.iter() {
                if data.is_cleanup {
                    continue;
                }
                if let TerminatorKind::Call { func, .. } = &data.terminator().kind {
                    if let Some((fd, ga)) = func.const_fn_def() {
                        let recv_ty = ga.iter().next().map(|g| format!("{}", g)).unwrap_or_default();
                        callees.push(J::obj().with("name", J::s(tcx.item_name(fd).to_string())).with("recv_ty", J::s(recv_ty)));
                    }
                }
            }
            let sig = tcx.fn_sig(item.def_id).instantiate_identity().skip_norm_wip().skip_binder();
            let node_ty = sig.inputs().get(1).map(|t| crate::hirdump::ty_str(*t)).unwrap_or_default();
            out.push(
                J::obj()
                    .with("trait", J::s(tname.clone()))
                    .with("method", J::s(item.name().to_string()))
                    .with("node_ty", J::s(node_ty))
                    .with("callees", J::Arr(callees)),
            );
        }
    }
    for tr in tcx.traits(krate).iter() {
        let tname = tcx.item_name(*tr).to_string();
        let (children, with) = match tname.as_str() {
            "VisitMutWith" => ("visit_mut_children_with", "visit_mut_with"),
            "VisitWith" => ("visit_children_with", "visit_with"),
            _ => continue,
        };
        for imp in tcx.all_impls(*tr) {
            let self_ty = tcx.type_of(imp).instantiate_identity().skip_norm_wip();
            let ty::Adt(adt, _) = self_ty.kind() else { continue };
            if tcx.crate_name(adt.did().krate).as_str() != "swc_ecma_ast" {
                continue;
            }
            let Some(item) = tcx
                .associated_items(imp)
                .in_definition_order()
                .find(|i| i.name().as_str() == children)
            else {
                continue;
            };
            let did = item.def_id;
            let mut o = J::obj();
            o.set("trait", J::s(tname.clone()));
            o.set("self_ty", J::s(path_str(tcx, adt.did())));
            if !tcx.is_mir_available(did) {
                o.set("mir", J::Bool(false));
                out.push(o);
                continue;
            }
            let body = tcx.optimized_mir(did);
            // local -> (variant, field) it borrows from `*_1`
            let mut borrows: BTreeMap<String, (String, String)> = BTreeMap::new();
            for data in body.basic_blocks.iter() {
                for st in data.statements.iter() {
                    if let StatementKind::Assign(b) = &st.kind {
                        let (place, rv) = &**b;
                        let src = match rv {
                            Rvalue::Ref(_, _, p) => Some(*p),
                            Rvalue::Use(Operand::Copy(p) | Operand::Move(p), ..) => Some(*p),
                            Rvalue::RawPtr(_, p) => Some(*p),
                            _ => None,
                        };
                        if let Some(p) = src {
                            let s = format!("{:?}", p);
                            borrows.insert(format!("{:?}", place), (s, String::new()));
                        }
                    }
                }
            }
            let mut calls = Vec::new();
            for data in body.basic_blocks.iter() {
                if data.is_cleanup {
                    continue;
                }
                if let TerminatorKind::Call { func, args, .. } = &data.terminator().kind {
                    if let Some((fd, ga)) = func.const_fn_def() {
                        let name = tcx.item_name(fd).to_string();
                        if name != with {
                            continue;
                        }
                        let recv_ty = ga.iter().next().map(|g| format!("{}", g)).unwrap_or_default();
                        let mut arg0 = args.get(0).map(|a| format!("{:?}", a.node)).unwrap_or_default();
                        // follow `move _k` / `copy _k` through the borrow table a few steps
                        for _ in 0..8 {
                            let mut key = arg0.trim_start_matches("move ").trim_start_matches("copy ").to_string();
                            // a plain re-borrow `(*_k)` stands for `_k`
                            if key.starts_with("(*_") && key.ends_with(')') && key[3..key.len() - 1].chars().all(|c| c.is_ascii_digit()) {
                                key = key[2..key.len() - 1].to_string();
                            }
                            if key == "_1" {
                                arg0 = key;
                                break;
                            }
                            match borrows.get(&key) {
                                Some((src, _)) => arg0 = src.clone(),
                                None => {
                                    arg0 = key;
                                    break;
                                }
                            }
                        }
                        calls.push(J::obj().with("recv_ty", J::s(recv_ty)).with("place", J::s(arg0)));
                    }
                }
            }
            o.set("calls", J::Arr(calls));
            out.push(o);
        }
    }
    J::Arr(out)
}
