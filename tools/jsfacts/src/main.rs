// jsfacts: parse JavaScript files with the repository's own parser version (swc_ecma_parser 0.148)
// and print their ESTree-like syntax trees as JSON.  Parsing only; nothing is executed.
// usage: jsfacts <out.json> <file.js>... [--inline <name> <source-text>]...
use swc_common::sync::Lrc as Arc;
use swc_common::{FileName, SourceMap};
use swc_ecma_ast::EsVersion;
use swc_ecma_parser::{parse_file_as_program, EsSyntax, Syntax};

fn parse(cm: &Arc<SourceMap>, name: &str, src: String) -> serde_json::Value {
    let fm = cm.new_source_file(Arc::new(FileName::Custom(name.to_string())), src.clone());
    let mut errors = vec![];
    let syntax = Syntax::Es(EsSyntax {
        allow_return_outside_function: true,
        ..Default::default()
    });
    let base = fm.start_pos.0;
    match parse_file_as_program(&fm, syntax, EsVersion::latest(), None, &mut errors) {
        Ok(program) => {
            // line table so that the rule engine can turn byte offsets into lines
            let mut line_starts = vec![0usize];
            for (i, b) in src.bytes().enumerate() {
                if b == b'\n' {
                    line_starts.push(i + 1);
                }
            }
            serde_json::json!({
                "ok": true,
                "base": base,
                "line_starts": line_starts,
                "errors": errors.len(),
                "program": serde_json::to_value(&program).unwrap(),
            })
        }
        Err(e) => serde_json::json!({"ok": false, "error": format!("{:?}", e)}),
    }
}

fn main() {
    let args: Vec<String> = std::env::args().collect();
    let out = &args[1];
    let cm: Arc<SourceMap> = Default::default();
    let mut result = serde_json::Map::new();
    let mut i = 2;
    while i < args.len() {
        if args[i] == "--inline" {
            let name = args[i + 1].clone();
            let src = args[i + 2].clone();
            result.insert(name.clone(), parse(&cm, &name, src));
            i += 3;
        } else {
            let name = args[i].clone();
            match std::fs::read_to_string(&name) {
                Ok(src) => {
                    result.insert(name.clone(), parse(&cm, &name, src));
                }
                Err(e) => {
                    result.insert(name.clone(), serde_json::json!({"ok": false, "error": format!("{}", e)}));
                }
            }
            i += 1;
        }
    }
    std::fs::write(out, serde_json::to_string(&serde_json::Value::Object(result)).unwrap()).unwrap();
}
